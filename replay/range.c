/* replay driver: real zck_get_range_char on a range list given as "start end" pairs on stdin (first line: count).
 * prints the rendered string (or NULL).  ASan catches the out-of-bounds write of the empty case. */
#include <stdio.h>
#include <stdlib.h>
#include <string.h>
#include "zck_private.h"
int main(void) {
    int n;
    if(scanf("%d", &n) != 1) return 2;
    zckRange *r = calloc(1, sizeof(zckRange));
    zckRangeItem *prev = NULL;
    for(int i = 0; i < n; i++) {
        unsigned long long s, e;
        if(scanf("%llu %llu", &s, &e) != 2) return 2;
        zckRangeItem *it = calloc(1, sizeof(zckRangeItem));
        it->start = s; it->end = e; it->prev = prev;
        if(prev) prev->next = it; else r->first = it;
        prev = it;
    }
    r->count = n;
    zckCtx *z = zck_create();
    char *out = zck_get_range_char(z, r);
    if(out == NULL) { printf("NULL\n"); return 0; }
    printf("S:%s\n", out);
    return 0;
}
