/* replay driver: real compint_to_size / compint_to_int on bytes placed flush against the end of a
 * heap block (ASan redzone = guard page).  args: mode n cur b0 .. b(n-1);  prints: ok val len */
#include <stdio.h>
#include <stdlib.h>
#include <string.h>
#include "zck_private.h"
int main(int argc, char **argv) {
    if(argc < 4) return 2;
    int mode = atoi(argv[1]);
    size_t n = strtoul(argv[2], 0, 10), cur = strtoul(argv[3], 0, 10);
    unsigned char *base = malloc(n ? n : 1);
    for(size_t i = 0; i < n && (int)(4 + i) < argc; i++) base[i] = (unsigned char)atoi(argv[4 + i]);
    zckCtx *z = zck_create();
    size_t len = cur;
    int ok;
    unsigned long long v;
    if(mode == 0) { size_t val = 0; ok = compint_to_size(z, &val, (char *)base + cur, &len, n); v = val; }
    else { int val = 0; ok = compint_to_int(z, &val, (char *)base + cur, &len, n); v = (unsigned long long)(long long)val; }
    printf("%d %llu %zu\n", ok ? 1 : 0, v, len);
    return 0;
}
