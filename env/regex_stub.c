/* dl.c references the regex API in functions the C08/C09 harnesses never reach; over-approximating bodies keep the link closed. */
#include <regex.h>
#include "env.h"
int regcomp(regex_t *r, const char *p, int f) { (void)r; (void)p; (void)f; return nondet_int(); }
int regexec(const regex_t *r, const char *s, size_t n, regmatch_t m[], int f) { (void)r; (void)s; (void)n; (void)m; (void)f; return nondet_int(); }
void regfree(regex_t *r) { (void)r; }
