/* Interface between harnesses and the environment models in /verif/env. */
#ifndef VERIF_ENV_H
#define VERIF_ENV_H
#include "verif.h"

/* ---- files.c : in-memory files ------------------------------------------------------------ */
#ifndef FCAP
#define FCAP 32          /* capacity of each in-memory file (bytes) */
#endif
#ifndef IO_MAX
#define IO_MAX FCAP      /* per-call transfer bound of the byte loops */
#endif
#define VF_N 3
extern unsigned char vf_data0[FCAP], vf_data1[FCAP], vf_data2[FCAP];
extern size_t vf_size[VF_N];
extern long vf_pos[VF_N];
extern int vf_open[VF_N], vf_fd[VF_N];
extern unsigned vf_nwrite[VF_N], vf_nread[VF_N], vf_ntrunc[VF_N], vf_nseek[VF_N];
extern int vf_fault_mode;         /* 0 = reliable, 1 = any call may fail / be short */
extern unsigned vf_faults;        /* number of injected faults so far */
extern int vf_crash_armed;        /* 1 = crash model active */
extern unsigned vf_crash_at;      /* write call index (over all files) at which the process is killed */
extern unsigned vf_crash_keep;    /* bytes of that write that still reach the file */
extern unsigned vf_wcalls;        /* write calls so far (all files) */
extern int vf_crashed;
/* write monitor: every byte position written in file k is checked against an allow-map when enabled */
extern int vf_guard_on[VF_N];
extern unsigned char vf_allow0[FCAP], vf_allow1[FCAP], vf_allow2[FCAP];
extern int vf_guard_violated;
extern int vf_tmp_fd_fixed;       /* >= 0: mkstemp returns exactly this descriptor */
void vf_havoc(int k);                       /* fill file k's array with arbitrary bytes */
void vf_attach(int k, int fd, size_t size); /* open file k as descriptor fd with given size, position 0 */
unsigned char vf_get(int k, size_t i);
void vf_set(int k, size_t i, unsigned char v);
void vf_allow(int k, size_t i, int allowed);

/* ---- hash models ------------------------------------------------------------------------- */
#ifndef HMAX
#define HMAX 24          /* capacity of the ghost message buffer */
#endif
/* reference digest of the ideal-hash model: deterministic; injective for len <= dsize-1 */
void model_digest(int type, const unsigned char *msg, size_t len, unsigned char *out /* 64 bytes */);
int model_dsize(int type);
extern int hm_overflow;                    /* a message exceeded HMAX (model capacity) */
/* last finalized message (acc model) */
extern unsigned char hm_last_msg[HMAX];
extern size_t hm_last_len;
extern unsigned hm_nfinal;
size_t hm_ctx_len(const void *ctx);   /* acc model: bytes absorbed so far by a running context */

/* ---- padalloc.c ------------------------------------------------------------------------- */
extern size_t pa_lsize[]; extern unsigned char pa_managed[]; extern int pa_over; extern unsigned pa_nrealloc;
size_t pa_size_of(const void *p); int pa_is_managed(const void *p);

/* ---- zstd stub --------------------------------------------------------------------------- */
extern int zs_strategy_set, zs_level_set, zs_compress_calls, zs_compress_before_strategy;
extern int zs_loaddict_calls, zs_dict_loaded_at_compress[8];
extern int zs_mode;     /* 0 = codec-A (marker + identity), 1 = codec-N (arbitrary decoder) */

#endif
