/* Model of the third-party uthash.h macros used by zchunk (HASH_FIND / HASH_ADD_KEYPTR / HASH_CLEAR):
 * a singly linked list keyed by byte equality.  Pre-defines the include guard of the real header.
 * Trusted: uthash internals (Jenkins hash, bucket growth).  Lookup semantics kept: HASH_FIND returns an element
 * whose key bytes equal the probe; zchunk never adds a key that is already present, so order is irrelevant. */
#ifndef UTHASH_H
#define UTHASH_H
#include <stddef.h>
typedef struct UT_hash_handle { void *vnext; const void *key; unsigned keylen; } UT_hash_handle;
int v_keyeq(const void *a, const void *b, unsigned n);
#define HASH_FIND(hh, head, keyptr, keylen_in, out) do { \
    (out) = NULL; \
    for(__typeof__(head) _e = (head); _e != NULL; _e = (__typeof__(head))_e->hh.vnext) { \
        if(_e->hh.keylen == (unsigned)(keylen_in) && v_keyeq(_e->hh.key, (keyptr), (unsigned)(keylen_in))) { (out) = _e; break; } \
    } } while(0)
#define HASH_ADD_KEYPTR(hh, head, keyptr, keylen_in, add) do { \
    (add)->hh.key = (keyptr); (add)->hh.keylen = (unsigned)(keylen_in); (add)->hh.vnext = (void *)(head); (head) = (add); } while(0)
#define HASH_CLEAR(hh, head) do { (head) = NULL; } while(0)
#endif
