/* Exact matchers for the three patterns zchunk builds, for CONCRETE subjects and alphanumeric boundaries (concrete-shape
 * harnesses): POSIX leftmost match, REG_ICASE, '.' matches any character.
 *   kind 1  the part pattern: optional CR LF, "--B", CRLF, anything, "content-range:", "bytes", start "-" end "/" total (digits, spaces optional)
 *   kind 2  CRLF "--B--"
 *   kind 3  "boundary", "=", shortest value, optional spaces, CR
 * regcomp classifies the pattern text and remembers B; anything else is an ENVBOUND failure.  The model is the environment
 * contract for these instances (glibc is FFI); subjects in the harness are single part headers, where leftmost-longest and
 * the scan below coincide. */
#include <regex.h>
#include <string.h>
#include "env.h"
#define RX_MARK 7000u
static char rx_b[3][8]; static size_t rx_bl[3];
static int lc(int c) { return (c >= 'A' && c <= 'Z') ? c + 32 : c; }
static int pre(const char *s, const char *p) { for(size_t i = 0; p[i]; i++) if(lc((unsigned char)s[i]) != lc((unsigned char)p[i])) return 0; return 1; }
int regcomp(regex_t *r, const char *p, int f) {
    (void)f;
    int kind = 0; size_t bo = 0;
    if(pre(p, "\r?\n?--")) { kind = 1; bo = 6; }
    else if(pre(p, "\r\n--")) { kind = 2; bo = 4; }
    else if(pre(p, "boundary")) kind = 3;
    __CPROVER_assert(kind != 0, "ENVBOUND/regcomp: pattern is one of the three zchunk patterns");
    if(kind == 1 || kind == 2) {
        size_t n = 0;
        for(size_t i = 0; i < 7; i++) { char c = p[bo + i]; if(c == '\r' || c == '-' || c == 0) break; rx_b[kind][n++] = c; }
        rx_b[kind][n] = 0; rx_bl[kind] = n;
    }
    r->re_nsub = RX_MARK + (unsigned)kind;
    return 0;
}
static size_t slen(const char *s) { size_t n = 0; while(s[n]) n++; return n; }
static int isd(char c) { return c >= '0' && c <= '9'; }
int regexec(const regex_t *r, const char *s, size_t nm, regmatch_t m[], int f) {
    (void)f;
    __CPROVER_assert(r != NULL && r->re_nsub > RX_MARK && r->re_nsub <= RX_MARK + 3, "C17/regexec-only-on-a-compiled-pattern");
    int kind = (int)(r->re_nsub - RX_MARK);
    size_t n = slen(s);
    if(kind == 2) {
        for(size_t i = 0; i + 4 + rx_bl[2] + 2 <= n; i++)
            if(s[i] == '\r' && s[i + 1] == '\n' && s[i + 2] == '-' && s[i + 3] == '-' && strncmp(s + i + 4, rx_b[2], rx_bl[2]) == 0 && s[i + 4 + rx_bl[2]] == '-' && s[i + 5 + rx_bl[2]] == '-') {
                if(nm > 0) { m[0].rm_so = (regoff_t)i; m[0].rm_eo = (regoff_t)(i + 6 + rx_bl[2]); }
                return 0;
            }
        return REG_NOMATCH;
    }
    if(kind == 1) {
        for(size_t i = 0; i + 2 + rx_bl[1] + 2 <= n; i++) {
            if(!(s[i] == '-' && s[i + 1] == '-' && strncmp(s + i + 2, rx_b[1], rx_bl[1]) == 0 && s[i + 2 + rx_bl[1]] == '\r' && s[i + 3 + rx_bl[1]] == '\n')) continue;
            size_t start = i;
            if(start > 0 && s[start - 1] == '\n') start--;
            if(start > 0 && s[start - 1] == '\r') start--;
            /* greedy .* : the last "content-range:" after the boundary line that completes the rest of the pattern */
            size_t from = i + 4 + rx_bl[1];
            for(size_t j = n; j-- > from; ) {
                if(j + 14 > n || !pre(s + j, "content-range:")) continue;
                size_t k = j + 14;
                while(s[k] == ' ') k++;
                if(!pre(s + k, "bytes")) continue;
                k += 5;
                while(s[k] == ' ') k++;
                size_t a0 = k; while(isd(s[k])) k++; size_t a1 = k;
                if(a1 == a0) continue;
                while(s[k] == ' ') k++;
                if(s[k] != '-') continue;
                k++;
                while(s[k] == ' ') k++;
                size_t b0 = k; while(isd(s[k])) k++; size_t b1 = k;
                if(b1 == b0) continue;
                while(s[k] == ' ') k++;
                if(s[k] != '/') continue;
                k++;
                size_t c0 = k; while(isd(s[k])) k++;
                if(k == c0) continue;
                if(nm > 0) { m[0].rm_so = (regoff_t)start; m[0].rm_eo = (regoff_t)k; }
                if(nm > 1) { m[1].rm_so = (regoff_t)a0; m[1].rm_eo = (regoff_t)a1; }
                if(nm > 2) { m[2].rm_so = (regoff_t)b0; m[2].rm_eo = (regoff_t)b1; }
                return 0;
            }
        }
        return REG_NOMATCH;
    }
    /* kind 3: boundary *= *(.*?) *\r  - leftmost "boundary", shortest group, then optional spaces and a CR */
    for(size_t i = 0; i + 8 <= n; i++) {
        if(!pre(s + i, "boundary")) continue;
        size_t k = i + 8;
        while(s[k] == ' ') k++;
        if(s[k] != '=') continue;
        k++;
        while(s[k] == ' ') k++;
        for(size_t e = k; e <= n; e++) {
            size_t q = e;
            while(s[q] == ' ') q++;
            if(s[q] == '\r') {
                if(nm > 0) { m[0].rm_so = (regoff_t)i; m[0].rm_eo = (regoff_t)(q + 1); }
                if(nm > 1) { m[1].rm_so = (regoff_t)k; m[1].rm_eo = (regoff_t)e; }
                return 0;
            }
        }
    }
    return REG_NOMATCH;
}
void regfree(regex_t *r) {
    __CPROVER_assert(r != NULL && r->re_nsub > RX_MARK, "C17/regfree-only-on-a-compiled-pattern");
    if(r) r->re_nsub = 0;
}
