/* Over-approximating hash model for pure memory-safety harnesses: contexts are opaque, every update checks that the
 * message range is readable, the digest is arbitrary (so every "seal" may pass or fail). */
#include <stdlib.h>
#include "zck_private.h"
#include "env.h"
int hm_overflow; unsigned hm_nfinal;
int model_dsize(int type) {
    return type == ZCK_HASH_SHA1 ? 20 : type == ZCK_HASH_SHA256 ? 32 : type == ZCK_HASH_SHA512 ? 64 : 16;
}
void lib_hash_ctx_close(zckHash *hash) { free(hash->ctx); }
bool lib_hash_init(zckCtx *zck, zckHash *hash) {
    int t = hash->type->type;
    if(t < ZCK_HASH_SHA1 || t > ZCK_HASH_SHA512_128) { set_error(zck, "Unsupported hash type"); return false; }
    hash->ctx = malloc(1);
    __CPROVER_assume(hash->ctx != NULL);
    return true;
}
bool lib_hash_update(zckCtx *zck, zckHash *hash, const char *message, const size_t size) {
    (void)zck; (void)hash;
    __CPROVER_assert(size == 0 || __CPROVER_r_ok(message, size), "ENV/hash_update: message readable for the full length");
    return true;
}
char *lib_hash_final(zckCtx *zck, zckHash *hash) {
    (void)zck;
    unsigned char *d = malloc(64);
    __CPROVER_assume(d != NULL);
    for(int i = 0; i < 64; i++) d[i] = nondet_uchar();
    hm_nfinal++;
    hash_close(hash);
    return (char *)d;
}
