/* Straight-line reference implementation of compint.c (same interface, same results, same effect on the error state),
 * linked instead of the real one where the 10x9-step decoding loops of the real code dominate a parser harness.
 * C20/h20e proves, on every input, that the real functions and these return the same verdict, value, cursor and error
 * state (and the harnesses that link this file run h20e in the same check).  -DSPEC_PREFIXED gives the functions a
 * spec_ prefix so that both versions can live in one binary. */
#include <limits.h>
#include "zck_private.h"
#ifdef SPEC_PREFIXED
#define N(x) spec_##x
#else
#define N(x) x
#endif
int N(compint_to_size)(zckCtx *zck, size_t *val, const char *compint, size_t *length, size_t max_length) {
    if(!zck) { set_error(zck, "Object not initialized"); return false; }
    if(zck->error_state > 0) return false;
    size_t start = *length;
    size_t avail = start < max_length ? max_length - start : 0;
    const unsigned char *p = (const unsigned char *)compint;
    size_t acc = 0;
    *val = 0;
#define STEP(k) \
    if((size_t)(k) >= avail) { set_fatal_error(zck, "Read past end of header"); return false; } \
    { unsigned c = p[k]; \
      if((k) == 9 && (c & 127) >= 2) { set_fatal_error(zck, "Number too large"); return false; } \
      acc |= (size_t)(c & 127) << (7 * (k)); \
      if(c & 128) { *val = acc; *length = start + (k) + 1; return true; } }
    STEP(0) STEP(1) STEP(2) STEP(3) STEP(4) STEP(5) STEP(6) STEP(7) STEP(8) STEP(9)
#undef STEP
    set_fatal_error(zck, "Number too large");
    return false;
}
int N(compint_to_int)(zckCtx *zck, int *val, const char *compint, size_t *length, size_t max_length) {
    if(!zck) { set_error(zck, "Object not initialized"); return false; }
    if(zck->error_state > 0) return false;
    size_t v = 0;
    if(!N(compint_to_size)(zck, &v, compint, length, max_length)) return false;
    if(v > INT_MAX) { set_fatal_error(zck, "Overflow error: compressed int is too large"); return false; }
    *val = (int)v;
    return true;
}
void N(compint_from_size)(char *compint, size_t val, size_t *length) {
    unsigned char *o = (unsigned char *)compint;
#define ENC(k) { o[k] = (unsigned char)(val & 127); val >>= 7; (*length)++; if(val == 0) { o[k] |= 128; return; } }
    ENC(0) ENC(1) ENC(2) ENC(3) ENC(4) ENC(5) ENC(6) ENC(7) ENC(8) ENC(9)
#undef ENC
}
int N(compint_from_int)(zckCtx *zck, char *compint, int val, size_t *length) {
    if(!zck) { set_error(zck, "Object not initialized"); return false; }
    if(zck->error_state > 0) return false;
    if(val < 0) { set_error(zck, "Unable to compress negative integers"); return false; }
    N(compint_from_size)(compint, (size_t)val, length);
    return true;
}
