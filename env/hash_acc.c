/* Ideal-hash model behind hash.c's backend interface (lib_hash_init/update/final/ctx_close).
 * The running context accumulates the message in a ghost buffer of HMAX bytes; the digest is
 * model_digest(): deterministic, and injective for messages of at most digest_size-1 bytes
 * (digest = len || message || 0-padding).  Longer messages get len|0x80, the message prefix and an xor fold:
 * deterministic but not collision free - harnesses that rely on injectivity keep messages short and
 * assert hm_overflow==0.  Collision resistance of the real SHA functions is the assumption this stands for. */
#include <stdlib.h>
#include "zck_private.h"
#include "env.h"

typedef struct { unsigned char msg[HMAX]; size_t len; } hm_ctx;
int hm_overflow;
unsigned char hm_last_msg[HMAX];
size_t hm_last_len;
unsigned hm_nfinal;

int model_dsize(int type) {
    return type == ZCK_HASH_SHA1 ? 20 : type == ZCK_HASH_SHA256 ? 32 : type == ZCK_HASH_SHA512 ? 64 : 16;
}
void model_digest(int type, const unsigned char *msg, size_t len, unsigned char *out) {
    int ds = model_dsize(type);
    for(int i = 0; i < 64; i++) out[i] = 0;
    if(len <= (size_t)(ds - 1)) {
        out[0] = (unsigned char)len;
        for(int i = 0; i < 63; i++) if((size_t)i < len && i < HMAX) out[1 + i] = msg[i];
    } else {
        unsigned char x = 0;
        out[0] = (unsigned char)(0x80 | (len & 0x7f));
        for(int i = 0; i < HMAX; i++) if((size_t)i < len) { if(i < ds - 2) out[1 + i] = msg[i]; else x ^= msg[i]; }
        out[ds - 1] = x;
    }
}
size_t hm_ctx_len(const void *ctx) { return ((const hm_ctx *)ctx)->len; }
void lib_hash_ctx_close(zckHash *hash) { free(hash->ctx); }
bool lib_hash_init(zckCtx *zck, zckHash *hash) {
    int t = hash->type->type;
    if(t < ZCK_HASH_SHA1 || t > ZCK_HASH_SHA512_128) { set_error(zck, "Unsupported hash type"); return false; }
    hm_ctx *c = malloc(sizeof(hm_ctx));
    __CPROVER_assume(c != NULL);
    c->len = 0;
    hash->ctx = c;
    return true;
}
bool lib_hash_update(zckCtx *zck, zckHash *hash, const char *message, const size_t size) {
    (void)zck;
    __CPROVER_assert(size == 0 || __CPROVER_r_ok(message, size), "ENV/hash_update: message readable for the full length");
    hm_ctx *c = hash->ctx;
    if(size > HMAX || c->len > HMAX - size) { hm_overflow = 1; c->len = HMAX + 1; return true; }
    size_t l = c->len;
    for(size_t i = 0; i < HMAX; i++) if(i < size) c->msg[l + i] = (unsigned char)message[i];
    c->len = l + size;
    return true;
}
char *lib_hash_final(zckCtx *zck, zckHash *hash) {
    (void)zck;
    hm_ctx *c = hash->ctx;
    unsigned char *d = malloc(64);
    __CPROVER_assume(d != NULL);
    size_t l = c->len <= HMAX ? c->len : HMAX;
    model_digest(hash->type->type, c->msg, l, d);
    if(c->len > HMAX) for(int i = 0; i < 64; i++) d[i] = nondet_uchar();
    for(size_t i = 0; i < HMAX; i++) hm_last_msg[i] = i < l ? c->msg[i] : 0;
    hm_last_len = c->len;
    hm_nfinal++;
    hash_close(hash);
    return (char *)d;
}
