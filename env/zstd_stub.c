/* Contract model of the libzstd entry points zchunk uses (FFI; the real library is outside every claim).
 * Contexts are opaque non-NULL tokens; ZSTD_isError(c) <=> c > (size_t)-120.
 * zs_mode 0 = codec-A: a deterministic, invertible toy codec: frame = 1 marker byte + the input verbatim.  The marker
 *   encodes whether a dictionary was loaded (and its first byte), so decoding with the wrong / a missing dictionary fails.
 * zs_mode 1 = codec-N: decompression may fail or return ANY length <= capacity with ANY bytes (covers "corruption that
 *   still decompresses"); compression returns any length <= bound with any bytes.
 * Ghost monitors record the call protocol (strategy pinned before first compress, dictionary loads). */
#include <stdlib.h>
#include <zstd.h>
#include "env.h"
#ifndef ZS_MAX
#define ZS_MAX 16
#endif
#define ZS_ERR(n) ((size_t)0 - (size_t)(n))
int zs_mode;
int zs_strategy_set, zs_level_set, zs_level_value, zs_compress_calls, zs_compress_before_strategy;
int zs_loaddict_calls, zs_dict_loaded_at_compress[8];
static int zs_cdict_on; static unsigned char zs_cdict_b0;
struct ZSTD_DDict_s { unsigned char b0; };
struct ZSTD_CCtx_s { char x; }; struct ZSTD_DCtx_s { char x; }; struct ZSTD_CDict_s { char x; };

ZSTD_CCtx *ZSTD_createCCtx(void) { ZSTD_CCtx *c = malloc(sizeof *c); __CPROVER_assume(c != NULL); zs_cdict_on = 0; return c; }
size_t ZSTD_freeCCtx(ZSTD_CCtx *c) { free(c); return 0; }
ZSTD_DCtx *ZSTD_createDCtx(void) { ZSTD_DCtx *d = malloc(sizeof *d); __CPROVER_assume(d != NULL); return d; }
size_t ZSTD_freeDCtx(ZSTD_DCtx *d) { free(d); return 0; }
size_t ZSTD_CCtx_setParameter(ZSTD_CCtx *c, ZSTD_cParameter p, int value) {
    __CPROVER_assert(c != NULL, "ENV/zstd: setParameter on a live context");
    if(p == ZSTD_c_strategy) zs_strategy_set = (value == ZSTD_btopt) ? 1 : -1;
    if(p == ZSTD_c_compressionLevel) { zs_level_set = 1; zs_level_value = value; }
    return 0;
}
size_t ZSTD_CCtx_loadDictionary(ZSTD_CCtx *c, const void *dict, size_t n) {
    __CPROVER_assert(c != NULL, "ENV/zstd: loadDictionary on a live context");
    __CPROVER_assert(n == 0 || __CPROVER_r_ok(dict, n), "ENV/zstd: dictionary readable for the stated size");
    zs_loaddict_calls++;
    if(dict == NULL || n == 0) zs_cdict_on = 0; else { zs_cdict_on = 1; zs_cdict_b0 = *(const unsigned char *)dict; }
    return 0;
}
ZSTD_DDict *ZSTD_createDDict(const void *dict, size_t n) {
    __CPROVER_assert(n == 0 || __CPROVER_r_ok(dict, n), "ENV/zstd: dictionary readable for the stated size");
    if(zs_mode == 1 && nondet_bool()) return NULL;      /* real library rejects malformed dictionaries */
#ifdef ZS_DDICT_FAIL
    return NULL;                                        /* instance option: the dictionary is rejected */
#endif
    ZSTD_DDict *d = malloc(sizeof *d); __CPROVER_assume(d != NULL);
    d->b0 = n ? *(const unsigned char *)dict : 0;
    return d;
}
size_t ZSTD_freeDDict(ZSTD_DDict *d) { free(d); return 0; }
ZSTD_CDict *ZSTD_createCDict(const void *dict, size_t n, int level) { (void)dict; (void)n; (void)level; ZSTD_CDict *d = malloc(sizeof *d); __CPROVER_assume(d != NULL); return d; }
size_t ZSTD_freeCDict(ZSTD_CDict *d) { free(d); return 0; }
size_t ZSTD_compressBound(size_t n) { return n > ZS_ERR(200) ? ZS_ERR(72) : n + 8; }
unsigned ZSTD_isError(size_t code) { return code > ZS_ERR(120); }
const char *ZSTD_getErrorName(size_t code) { (void)code; return "zstd error"; }
int ZSTD_maxCLevel(void) { return 22; }
#ifdef ZS_SIMPLE_DICT
/* concrete-shape harnesses: the marker says only whether a dictionary was in use (its content is symbolic there) */
static unsigned char marker(int dict_on, unsigned char b0) { (void)b0; return dict_on ? 0x26 : 0x25; }
#else
static unsigned char marker(int dict_on, unsigned char b0) { return dict_on ? (unsigned char)(0x80 | (b0 & 0x7f)) : 0x25; }
#endif
size_t ZSTD_compress2(ZSTD_CCtx *c, void *dst, size_t cap, const void *src, size_t n) {
    __CPROVER_assert(c != NULL, "ENV/zstd: compress2 on a live context");
    __CPROVER_assert(n == 0 || __CPROVER_r_ok(src, n), "ENV/zstd: compress2 source readable");
    __CPROVER_assert(cap == 0 || __CPROVER_w_ok(dst, cap), "ENV/zstd: compress2 destination writable for its capacity");
    if(zs_strategy_set != 1) zs_compress_before_strategy = 1;
    if(zs_compress_calls < 8) zs_dict_loaded_at_compress[zs_compress_calls] = zs_cdict_on;
    zs_compress_calls++;
    unsigned char *d = dst; const unsigned char *s = src;
    if(zs_mode == 1) {
        size_t r = nondet_size_t();
        if(r > cap) return ZS_ERR(70);
        for(size_t i = 0; i < ZS_MAX + 8; i++) if(i < r) d[i] = nondet_uchar();
        return r;
    }
    if(cap < n + 1) return ZS_ERR(70);
    __CPROVER_assert(n <= ZS_MAX, "ENVBOUND/zstd model: chunk within model bound");
    d[0] = marker(zs_cdict_on, zs_cdict_b0);
    for(size_t i = 0; i < ZS_MAX; i++) if(i < n) d[1 + i] = s[i];
    return n + 1;
}
static size_t dec(void *dst, size_t cap, const void *src, size_t n, int dict_on, unsigned char b0) {
    __CPROVER_assert(n == 0 || __CPROVER_r_ok(src, n), "ENV/zstd: decompress source readable for the stated size");
    __CPROVER_assert(cap == 0 || __CPROVER_w_ok(dst, cap), "ENV/zstd: decompress destination writable for its capacity");
    unsigned char *d = dst; const unsigned char *s = src;
    if(zs_mode == 1) {
        if(nondet_bool()) return ZS_ERR(20);
        size_t r = nondet_size_t();
        __CPROVER_assume(r <= cap);
        for(size_t i = 0; i < ZS_MAX; i++) if(i < r) d[i] = nondet_uchar();
        __CPROVER_assert(r <= ZS_MAX, "ENVBOUND/zstd model: chunk within model bound");
        return r;
    }
#ifdef ZS_SIMPLE_DICT
    /* a frame coded without a dictionary also decodes when a dictionary is supplied (zstd ignores it: no dictID in such frames) */
    if(n < 1 || !(s[0] == marker(dict_on, b0) || (dict_on && s[0] == marker(0, 0)))) return ZS_ERR(20);
#else
    if(n < 1 || s[0] != marker(dict_on, b0)) return ZS_ERR(20);
#endif
    if(cap < n - 1) return ZS_ERR(70);
    __CPROVER_assert(n - 1 <= ZS_MAX, "ENVBOUND/zstd model: chunk within model bound");
    for(size_t i = 0; i < ZS_MAX; i++) if(i + 1 < n) d[i] = s[1 + i];
    return n - 1;
}
size_t ZSTD_decompressDCtx(ZSTD_DCtx *x, void *dst, size_t cap, const void *src, size_t n) {
    __CPROVER_assert(x != NULL, "ENV/zstd: decompress on a live context");
    return dec(dst, cap, src, n, 0, 0);
}
size_t ZSTD_decompress_usingDDict(ZSTD_DCtx *x, void *dst, size_t cap, const void *src, size_t n, const ZSTD_DDict *dd) {
    __CPROVER_assert(x != NULL && dd != NULL, "ENV/zstd: decompress_usingDDict on live context and dictionary");
    return dec(dst, cap, src, n, 1, dd->b0);
}
