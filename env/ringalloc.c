/* zmalloc/zrealloc for concrete-shape harnesses: exact-size objects (CBMC's bounds checks stay exact), with the sizes of
 * the most recent allocations remembered in a small ring that is searched by *pointer equality* - which CBMC folds for concrete
 * pointers, unlike __CPROVER_OBJECT_SIZE or tables indexed by object number - so that realloc's copy length is a constant and the
 * copied bytes stay constants (needed for the reader's control flow over bytes the writer produced).  The copy is a byte loop. */
#include <stdlib.h>
#include "env.h"
#ifndef RA_MAX
#define RA_MAX 130
#endif
#define RING 24
static void *rg_p[RING]; static size_t rg_s[RING]; static unsigned rg_n;
static void rg_put(void *p, size_t s) { rg_p[rg_n % RING] = p; rg_s[rg_n % RING] = s; rg_n++; }
void *zmalloc(size_t size) {
    void *p = calloc(1, size);
    __CPROVER_assume(p != NULL || size == 0);
    if(p) rg_put(p, size);
    return p;
}
void *zrealloc(void *ptr, size_t size) {
    if(size == 0) { if(ptr) free(ptr); return NULL; }
    if(ptr == NULL) { void *q = malloc(size); __CPROVER_assume(q != NULL); rg_put(q, size); return q; }
    size_t old = 0; int found = 0;
    for(int k = 0; k < RING; k++) if(!found && rg_p[k] == ptr) { old = rg_s[k]; found = 1; rg_p[k] = NULL; }
    __CPROVER_assert(found, "ENVBOUND/zrealloc of a pointer outside the allocation ring");
    __CPROVER_assert(old <= RA_MAX || size <= RA_MAX, "ENVBOUND/zrealloc copy length within model bound");
    unsigned char *n = malloc(size);
    __CPROVER_assume(n != NULL);
    size_t c = old < size ? old : size;
    const unsigned char *o = ptr;
    for(size_t i = 0; i < RA_MAX; i++) if(i < c) n[i] = o[i];
    free(ptr);
    rg_put(n, size);
    return n;
}
