/* Model of the POSIX file calls zchunk uses, over <=3 in-memory files held in separate global arrays.
 * Transfer into the fixed-size file arrays (write) is a bounded byte loop; transfer out of them into caller buffers (read) is one memcpy.  Buffer ranges are asserted r_ok/w_ok for
 * the full requested length.  Optional fault mode (any call may fail or be short) and crash model. */
#include <unistd.h>
#include <string.h>
#include <errno.h>
#include <stdlib.h>
#include <sys/types.h>
#include <sys/stat.h>
#include "env.h"

unsigned char vf_data0[FCAP], vf_data1[FCAP], vf_data2[FCAP];
size_t vf_size[VF_N];
long vf_pos[VF_N];
int vf_open[VF_N], vf_fd[VF_N];
unsigned vf_nwrite[VF_N], vf_nread[VF_N], vf_ntrunc[VF_N], vf_nseek[VF_N];
int vf_fault_mode;
unsigned vf_faults;
int vf_crash_armed; unsigned vf_crash_at, vf_crash_keep, vf_wcalls; int vf_crashed;
int vf_guard_on[VF_N];
unsigned char vf_allow0[FCAP], vf_allow1[FCAP], vf_allow2[FCAP];
int vf_guard_violated;

void vf_havoc(int k) {
    for(size_t i = 0; i < FCAP; i++) {
        unsigned char c = nondet_uchar();
        if(k == 0) vf_data0[i] = c; else if(k == 1) vf_data1[i] = c; else vf_data2[i] = c;
    }
}
void vf_attach(int k, int fd, size_t size) {
    __CPROVER_assume(size <= FCAP);
    vf_open[k] = 1; vf_fd[k] = fd; vf_size[k] = size; vf_pos[k] = 0;
}
unsigned char vf_get(int k, size_t i) {
    __CPROVER_assume(i < FCAP);
    return k == 0 ? vf_data0[i] : k == 1 ? vf_data1[i] : vf_data2[i];
}
void vf_set(int k, size_t i, unsigned char v) {
    __CPROVER_assume(i < FCAP);
    if(k == 0) vf_data0[i] = v; else if(k == 1) vf_data1[i] = v; else vf_data2[i] = v;
}
void vf_allow(int k, size_t i, int a) {
    __CPROVER_assume(i < FCAP);
    if(k == 0) vf_allow0[i] = a; else if(k == 1) vf_allow1[i] = a; else vf_allow2[i] = a;
}
static int vf_find(int fd) {
    for(int k = 0; k < VF_N; k++)
        if(vf_open[k] && vf_fd[k] == fd) return k;
    return -1;
}
static int fault_errno(void) {
    int e = nondet_int();
    __CPROVER_assume(e == EIO || e == ENOSPC || e == EINTR);
    return e;
}

ssize_t read(int fd, void *buf, size_t n) {
    __CPROVER_assert(n == 0 || __CPROVER_w_ok(buf, n), "ENV/read: buffer writable for the full requested length");
    int k = vf_find(fd);
    if(k < 0) { errno = EBADF; return -1; }
    vf_nread[k]++;
    if(vf_fault_mode && nondet_bool()) { vf_faults++; errno = fault_errno(); return -1; }
    size_t p = (size_t)vf_pos[k];
    size_t avail = p < vf_size[k] ? vf_size[k] - p : 0;
    size_t cnt = n < avail ? n : avail;
    if(vf_fault_mode && cnt > 1 && nondet_bool()) {
        size_t s = nondet_size_t();
        __CPROVER_assume(s >= 1 && s < cnt);
        cnt = s; vf_faults++;
    }
    /* destination is (usually) a heap object of symbolic size: one array operation (CBMC's memcpy) keeps its update
     * chain short; a byte loop here made read_lead cost 25 M SAT variables instead of 1.6 M (measured) */
#ifdef V_READ_LOOP
    /* concrete-shape harnesses: a byte loop keeps constant file bytes constant for the reader's control flow (the built-in memcpy
     * is an opaque array operation until the solver runs) */
    { unsigned char *d = buf;
      for(size_t i = 0; i < IO_MAX; i++) if(i < cnt) d[i] = k == 0 ? vf_data0[p + i] : k == 1 ? vf_data1[p + i] : vf_data2[p + i]; }
#else
    if(cnt > 0) { if(k == 0) memcpy(buf, &vf_data0[p], cnt); else if(k == 1) memcpy(buf, &vf_data1[p], cnt); else memcpy(buf, &vf_data2[p], cnt); }
#endif
    vf_pos[k] = (long)(p + cnt);
    return (ssize_t)cnt;
}

ssize_t write(int fd, const void *buf, size_t n) {
    __CPROVER_assert(n == 0 || __CPROVER_r_ok(buf, n), "ENV/write: buffer readable for the full requested length");
    int k = vf_find(fd);
    if(k < 0) { errno = EBADF; return -1; }
    vf_nwrite[k]++;
    unsigned callno = vf_wcalls++;
    if(vf_fault_mode && nondet_bool()) { vf_faults++; errno = fault_errno(); return -1; }
    size_t p = (size_t)vf_pos[k];
    if(p > FCAP || n > FCAP - p) { errno = ENOSPC; return -1; }   /* device full: legitimate environment answer */
    size_t cnt = n;
    if(vf_fault_mode && cnt > 1 && nondet_bool()) {
        size_t s = nondet_size_t();
        __CPROVER_assume(s >= 1 && s < cnt);
        cnt = s; vf_faults++;
    }
    size_t persist = cnt;
    if(vf_crash_armed) {
        if(vf_crashed) persist = 0;
        else if(callno == vf_crash_at) { vf_crashed = 1; persist = vf_crash_keep < cnt ? vf_crash_keep : cnt; }
    }
    const unsigned char *b = buf;
    /* zero-fill a hole between end of file and p */
    if(persist > 0 && p > vf_size[k]) {
        size_t s0 = vf_size[k];
        for(size_t i = 0; i < FCAP; i++) if(i >= s0 && i < p) {
            if(k == 0) vf_data0[i] = 0; else if(k == 1) vf_data1[i] = 0; else vf_data2[i] = 0; }
    }
    if(k == 0) { for(size_t i = 0; i < IO_MAX; i++) if(i < persist) { vf_data0[p + i] = b[i]; if(vf_guard_on[0] && !vf_allow0[p + i]) vf_guard_violated = 1; } }
    else if(k == 1) { for(size_t i = 0; i < IO_MAX; i++) if(i < persist) { vf_data1[p + i] = b[i]; if(vf_guard_on[1] && !vf_allow1[p + i]) vf_guard_violated = 1; } }
    else { for(size_t i = 0; i < IO_MAX; i++) if(i < persist) { vf_data2[p + i] = b[i]; if(vf_guard_on[2] && !vf_allow2[p + i]) vf_guard_violated = 1; } }
    if(persist > 0 && p + persist > vf_size[k]) vf_size[k] = p + persist;
    vf_pos[k] = (long)(p + cnt);
    return (ssize_t)cnt;
}

off_t lseek(int fd, off_t off, int whence) {
    int k = vf_find(fd);
    if(k < 0) { errno = EBADF; return -1; }
    vf_nseek[k]++;
    if(vf_fault_mode && nondet_bool()) { vf_faults++; errno = fault_errno(); return -1; }
    long base = whence == SEEK_SET ? 0 : whence == SEEK_CUR ? vf_pos[k] : whence == SEEK_END ? (long)vf_size[k] : -1;
    if(base < 0) { errno = EINVAL; return -1; }
    if(off < 0 ? base + off < 0 : off > 0x7fffffffffffffffL - base) { errno = EINVAL; return -1; }
    vf_pos[k] = base + off;
    return vf_pos[k];
}

int close(int fd) {
    int k = vf_find(fd);
    if(k < 0) { errno = EBADF; return -1; }
    vf_open[k] = 0;
    return 0;
}

int ftruncate(int fd, off_t len) {
    int k = vf_find(fd);
    if(k < 0 || len < 0) { errno = EINVAL; return -1; }
    vf_ntrunc[k]++;
    if((size_t)len > FCAP) { errno = ENOSPC; return -1; }
    size_t s0 = vf_size[k];
    for(size_t i = 0; i < FCAP; i++) if(i >= s0 && i < (size_t)len) {
        if(k == 0) vf_data0[i] = 0; else if(k == 1) vf_data1[i] = 0; else vf_data2[i] = 0; }
    vf_size[k] = (size_t)len;
    return 0;
}

/* temp file: an arbitrary free descriptor number, including 0; backed by file slot 2 */
int vf_tmp_fd_choice = -2;
int vf_tmp_fd_fixed = -1;
int mkstemp(char *tmpl) {
    (void)tmpl;
    if(vf_open[2]) { errno = EMFILE; return -1; }
    int fd = nondet_int();
    __CPROVER_assume(fd >= 0 && fd <= 9);
    if(vf_tmp_fd_fixed >= 0) fd = vf_tmp_fd_fixed;       /* concrete-shape harnesses fix the descriptor number per instance */
    __CPROVER_assume(!(vf_open[0] && vf_fd[0] == fd) && !(vf_open[1] && vf_fd[1] == fd));
    vf_tmp_fd_choice = fd;
    vf_open[2] = 1; vf_fd[2] = fd; vf_size[2] = 0; vf_pos[2] = 0;
    return fd;
}
int unlink(const char *p) { (void)p; return 0; }
mode_t umask(mode_t m) { (void)m; return 022; }
char *getenv(const char *n) { (void)n; return NULL; }
