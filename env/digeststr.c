/* get_digest_string() is used by the library only to build log/error text (and by the zck_get_*_digest getters, whose
 * harness links the real one).  Model: checks that the digest is readable for the stated size, returns a fresh
 * NUL-terminated string of arbitrary content (the text is dropped by env/log_err.c anyway). */
#include <stdlib.h>
#include "zck_private.h"
#include "env.h"
char *get_digest_string(const char *digest, int size) {
    __CPROVER_assert(size >= 0, "ENV/get_digest_string: size non-negative");
    __CPROVER_assert(digest == NULL || size == 0 || __CPROVER_r_ok(digest, (size_t)size), "ENV/get_digest_string: digest readable for size bytes");
    char *s = malloc(3);
    __CPROVER_assume(s != NULL);
    s[0] = nondet_char(); s[1] = nondet_char(); s[2] = 0;
    return s;
}
