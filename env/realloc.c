/* Model of realloc(): fresh object of the new size, the common prefix copied by a bounded byte loop (CBMC's built-in
 * realloc copies through a symbolic-length array operation, which is what made range-string rendering cost > 14 GB).
 * Sizes above RA_MAX are outside the model: the harness bound is asserted. */
#include <stdlib.h>
#include "env.h"
#ifndef RA_MAX
#define RA_MAX 64
#endif
int ra_overflow;
void *realloc(void *ptr, size_t size) {
    if(ptr == NULL) return malloc(size);
    if(size == 0) { free(ptr); return NULL; }
    __CPROVER_assert(__CPROVER_OBJECT_SIZE(ptr) <= RA_MAX || size <= RA_MAX, "ENV/realloc: size within the model bound");
    unsigned char *n = malloc(size);
    __CPROVER_assume(n != NULL);
    size_t old = __CPROVER_OBJECT_SIZE(ptr);
    size_t c = old < size ? old : size;
    const unsigned char *o = ptr;
    for(size_t i = 0; i < RA_MAX; i++) if(i < c) n[i] = o[i];
    free(ptr);
    return n;
}
