/* Over-approximating model of glibc's regcomp/regexec/regfree (FFI).  regcomp may fail; a successfully compiled object is
 * marked (ghost use of re_nsub); regexec/regfree on an object that is not marked is an assertion failure ("use of an
 * uncompiled pattern").  regexec either reports no match or ANY match: 0 <= so <= eo <= strlen(string) for group 0 and for
 * each requested sub-group (sub-groups inside group 0) - a superset of what the real engine can return. */
#include <regex.h>
#include <string.h>
#include "env.h"
#ifndef RX_STRMAX
#define RX_STRMAX 24
#endif
#define RX_MARK 7777u
int rx_uncompiled_use;
int regcomp(regex_t *r, const char *p, int f) {
    (void)f;
    __CPROVER_assert(r != NULL && p != NULL, "ENV/regcomp: arguments non-null");
    size_t n = 0;
    for(size_t i = 0; i < 4 * RX_STRMAX; i++) { __CPROVER_assert(__CPROVER_r_ok(p + i, 1), "ENV/regcomp: pattern is a terminated string"); if(p[i] == 0) break; n++; }
    if(nondet_bool()) { r->re_nsub = 0; return REG_BADPAT; }
    r->re_nsub = RX_MARK;
    return 0;
}
int regexec(const regex_t *r, const char *s, size_t nm, regmatch_t m[], int f) {
    (void)f;
    __CPROVER_assert(r != NULL && r->re_nsub == RX_MARK, "C17/regexec-only-on-a-compiled-pattern");
    if(r == NULL || r->re_nsub != RX_MARK) rx_uncompiled_use = 1;
    size_t len = 0; int term = 0;
    for(size_t i = 0; i < RX_STRMAX; i++) if(!term) { __CPROVER_assert(__CPROVER_r_ok(s + i, 1), "C17/regexec-subject-is-a-terminated-string-inside-its-buffer"); if(s[i] == 0) term = 1; else len++; }
    __CPROVER_assert(term, "ENVBOUND/regexec subject within model bound");
    if(nondet_bool()) return REG_NOMATCH;
    regoff_t so0 = nondet_int(), eo0 = nondet_int();
    __CPROVER_assume(so0 >= 0 && so0 <= eo0 && (size_t)eo0 <= len);
    for(size_t k = 0; k < 4; k++) if(k < nm) {
        regoff_t so = nondet_int(), eo = nondet_int();
        __CPROVER_assume(so >= so0 && so <= eo && eo <= eo0);
        if(k == 0) { so = so0; eo = eo0; }
        m[k].rm_so = so; m[k].rm_eo = eo;
    }
    return 0;
}
void regfree(regex_t *r) {
    __CPROVER_assert(r != NULL && r->re_nsub == RX_MARK, "C17/regfree-only-on-a-compiled-pattern");
    if(r) r->re_nsub = 0;
}
