/* Force-included (goto-cc -include) in front of every translation unit.
 * 1. optionally replaces uthash.h by the list model (-DV_UTHASH_MODEL)
 * 2. pulls in the real zck_private.h (include guard => later #include is a no-op)
 * 3. re-defines the block-size constants the code is parametric in when a harness asks for
 *    scaled values (-DV_BUF_SIZE=.. etc.).  The scaled values are printed in the evidence. */
#ifndef VERIF_PRE_H
#define VERIF_PRE_H
#ifndef V_NO_PRIVATE
#ifdef V_UTHASH_MODEL
#include "uthash_model.h"
#endif
#include "zck_private.h"
#ifdef V_BUF_SIZE
#undef BUF_SIZE
#define BUF_SIZE V_BUF_SIZE
#endif
#ifdef V_BUZHASH_WIDTH
#undef DEFAULT_BUZHASH_WIDTH
#define DEFAULT_BUZHASH_WIDTH V_BUZHASH_WIDTH
#endif
#ifdef V_BUZHASH_BITS
#undef DEFAULT_BUZHASH_BITS
#define DEFAULT_BUZHASH_BITS V_BUZHASH_BITS
#endif
#ifdef V_CHUNK_DEFAULT_MAX
#undef CHUNK_DEFAULT_MAX
#define CHUNK_DEFAULT_MAX V_CHUNK_DEFAULT_MAX
#endif
#endif
#endif
