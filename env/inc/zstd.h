/* Minimal declaration set of libzstd used by /repo/src/lib/comp/zstd/zstd.c; bodies in env/zstd_stub.c.
 * Placed before the system include path so that goto-cc parses this instead of the full zstd.h. */
#ifndef VERIF_ZSTD_H
#define VERIF_ZSTD_H
#include <stddef.h>
typedef struct ZSTD_CCtx_s ZSTD_CCtx;
typedef struct ZSTD_DCtx_s ZSTD_DCtx;
typedef struct ZSTD_CDict_s ZSTD_CDict;
typedef struct ZSTD_DDict_s ZSTD_DDict;
typedef enum { ZSTD_c_compressionLevel = 100, ZSTD_c_strategy = 107 } ZSTD_cParameter;
typedef enum { ZSTD_fast = 1, ZSTD_dfast = 2, ZSTD_greedy = 3, ZSTD_lazy = 4, ZSTD_lazy2 = 5, ZSTD_btlazy2 = 6,
               ZSTD_btopt = 7, ZSTD_btultra = 8, ZSTD_btultra2 = 9 } ZSTD_strategy;
ZSTD_CCtx *ZSTD_createCCtx(void);
size_t ZSTD_freeCCtx(ZSTD_CCtx *c);
ZSTD_DCtx *ZSTD_createDCtx(void);
size_t ZSTD_freeDCtx(ZSTD_DCtx *d);
size_t ZSTD_CCtx_setParameter(ZSTD_CCtx *c, ZSTD_cParameter p, int value);
size_t ZSTD_CCtx_loadDictionary(ZSTD_CCtx *c, const void *dict, size_t dictSize);
ZSTD_DDict *ZSTD_createDDict(const void *dict, size_t dictSize);
size_t ZSTD_freeDDict(ZSTD_DDict *d);
ZSTD_CDict *ZSTD_createCDict(const void *dict, size_t dictSize, int level);
size_t ZSTD_freeCDict(ZSTD_CDict *d);
size_t ZSTD_compressBound(size_t srcSize);
unsigned ZSTD_isError(size_t code);
const char *ZSTD_getErrorName(size_t code);
int ZSTD_maxCLevel(void);
size_t ZSTD_compress2(ZSTD_CCtx *c, void *dst, size_t dstCapacity, const void *src, size_t srcSize);
size_t ZSTD_decompressDCtx(ZSTD_DCtx *d, void *dst, size_t dstCapacity, const void *src, size_t srcSize);
size_t ZSTD_decompress_usingDDict(ZSTD_DCtx *d, void *dst, size_t dstCapacity, const void *src, size_t srcSize,
                                  const ZSTD_DDict *ddict);
#endif
