/* Bounded byte-loop models of memcpy/memmove/memset/memcmp.  CBMC's built-ins go through symbolic-length array operations,
 * which cost ~1 M SAT variables per call when the length is symbolic (DESIGN.md 2.6 #14); these loops cost a few thousand.
 * Ranges are still checked for the full requested length.  A length above MEM_MAX is outside the model: ENVBOUND assertion
 * (reported as inconclusive, never as success or violation). */
#include <stddef.h>
#include "env.h"
#ifdef V_PADALLOC
#define LCHK(p, n, what) __CPROVER_assert(!pa_is_managed(p) || __CPROVER_POINTER_OFFSET(p) + (n) <= pa_size_of(p), what " inside the logical size of its buffer")
#else
#define LCHK(p, n, what)
#endif
#ifndef MEM_MAX
#define MEM_MAX 64
#endif
void *memcpy(void *dst, const void *src, size_t n) {
    __CPROVER_assert(n == 0 || __CPROVER_r_ok(src, n), "memcpy source readable for the full length");
    __CPROVER_assert(n == 0 || __CPROVER_w_ok(dst, n), "memcpy destination writable for the full length");
    LCHK(src, n, "memcpy source"); LCHK(dst, n, "memcpy destination");
    __CPROVER_assert(n <= MEM_MAX, "ENVBOUND/memcpy length within model bound");
    unsigned char *d = dst; const unsigned char *s = src;
    for(size_t i = 0; i < MEM_MAX; i++) if(i < n) d[i] = s[i];
    return dst;
}
void *memmove(void *dst, const void *src, size_t n) {
    __CPROVER_assert(n == 0 || __CPROVER_r_ok(src, n), "memmove source readable for the full length");
    __CPROVER_assert(n == 0 || __CPROVER_w_ok(dst, n), "memmove destination writable for the full length");
    LCHK(src, n, "memmove source"); LCHK(dst, n, "memmove destination");
    __CPROVER_assert(n <= MEM_MAX, "ENVBOUND/memmove length within model bound");
    unsigned char tmp[MEM_MAX];
    unsigned char *d = dst; const unsigned char *s = src;
    for(size_t i = 0; i < MEM_MAX; i++) if(i < n) tmp[i] = s[i];
    for(size_t i = 0; i < MEM_MAX; i++) if(i < n) d[i] = tmp[i];
    return dst;
}
void *memset(void *dst, int c, size_t n) {
    __CPROVER_assert(n == 0 || __CPROVER_w_ok(dst, n), "memset destination writable for the full length");
    LCHK(dst, n, "memset destination");
#ifndef MEMSET_MAX
#define MEMSET_MAX MEM_MAX
#endif
    __CPROVER_assert(n <= MEMSET_MAX, "ENVBOUND/memset length within model bound");
    unsigned char *d = dst;
    for(size_t i = 0; i < MEMSET_MAX; i++) if(i < n) d[i] = (unsigned char)c;
    return dst;
}
int memcmp(const void *a, const void *b, size_t n) {
    __CPROVER_assert(n == 0 || __CPROVER_r_ok(a, n), "memcmp first operand readable for the full length");
    __CPROVER_assert(n == 0 || __CPROVER_r_ok(b, n), "memcmp second operand readable for the full length");
    __CPROVER_assert(n <= MEM_MAX, "ENVBOUND/memcmp length within model bound");
    const unsigned char *x = a, *y = b;
    int r = 0;
    for(size_t i = 0; i < MEM_MAX; i++) if(i < n && r == 0 && x[i] != y[i]) r = x[i] < y[i] ? -1 : 1;
    return r;
}
