/* Common harness vocabulary. */
#ifndef VERIF_H
#define VERIF_H
#include <stddef.h>
#include <stdint.h>
#include <stdbool.h>
#include <sys/types.h>

int nondet_int(void);
unsigned nondet_uint(void);
size_t nondet_size_t(void);
ssize_t nondet_ssize_t(void);
unsigned char nondet_uchar(void);
char nondet_char(void);
_Bool nondet_bool(void);
uint64_t nondet_u64(void);

#define ASSUME(c) __CPROVER_assume(c)
/* labelled obligation: label must start with "Cxx/" */
#define OBLIGE(c, label) __CPROVER_assert((c), label)
/* reachability witness: must come back FAILED, otherwise the harness is vacuous */
#define WITNESS(label) __CPROVER_assert(0, "WITNESS/" label)

#endif
