/* Capacity-padded model of zmalloc/zrealloc for harnesses whose subject is functional behaviour of code that builds
 * buffers of data-dependent size (range string, header/index serialisation).  Every buffer is one object of the fixed
 * physical capacity PA_CAP; its *logical* size is tracked per object (pa_lsize, indexed by CBMC's object number) and
 * checked by the modelled accessors (env/mem.c with -DV_PADALLOC, the snprintf models, harness read-backs).  zrealloc
 * keeps the pointer (legal libc behaviour).
 * Why: heap objects of symbolic size are encoded through array theory and a realloc that returns a fresh object per loop
 * iteration makes every written pointer a merge of k objects; measured > 14 GB for 7 iterations of zck_get_range_char
 * and > 16 GB for header_create with one chunk.  With fixed-size objects the same harnesses need < 1 GB.
 * Cost: direct stores beyond the logical but inside the physical size are not flagged by CBMC's pointer checks in these
 * harnesses (they are in the reader-side harnesses, which use exact-size objects).  The real zmalloc/zrealloc bodies
 * (calloc/realloc wrappers) are removed in these harnesses only. */
#include <stdlib.h>
#include "env.h"
#ifndef PA_CAP
#define PA_CAP 64
#endif
#ifndef PA_TAB
#define PA_TAB 1024        /* objects are numbered in allocation order; a harness with more objects raises the ENVBOUND assertion */
#endif
size_t pa_lsize[PA_TAB]; unsigned char pa_managed[PA_TAB]; int pa_over; unsigned pa_nrealloc;
size_t pa_size_of(const void *p) { return pa_lsize[__CPROVER_POINTER_OBJECT(p) % PA_TAB]; }
int pa_is_managed(const void *p) { return p != NULL && pa_managed[__CPROVER_POINTER_OBJECT(p) % PA_TAB]; }
void *zmalloc(size_t size) {
    __CPROVER_assert(size <= PA_CAP, "ENVBOUND/zmalloc size within model capacity");
    if(size > PA_CAP) pa_over = 1;
    void *p = calloc(1, PA_CAP);
    __CPROVER_assume(p != NULL);
    __CPROVER_assert(__CPROVER_POINTER_OBJECT(p) < PA_TAB, "ENVBOUND/object number within model table");
    pa_lsize[__CPROVER_POINTER_OBJECT(p) % PA_TAB] = size;
    pa_managed[__CPROVER_POINTER_OBJECT(p) % PA_TAB] = 1;
    return p;
}
void *zrealloc(void *ptr, size_t size) {
    if(size == 0) { if(ptr) { pa_managed[__CPROVER_POINTER_OBJECT(ptr) % PA_TAB] = 0; free(ptr); } return NULL; }
    if(ptr == NULL) return zmalloc(size);
    if(!pa_is_managed(ptr)) { void *n = realloc(ptr, size); __CPROVER_assume(n != NULL); return n; }
    __CPROVER_assert(__CPROVER_POINTER_OFFSET(ptr) == 0, "zrealloc of a pointer that is not the start of an allocation");
    __CPROVER_assert(size <= PA_CAP, "ENVBOUND/zrealloc size within model capacity");
    if(size > PA_CAP) pa_over = 1;
    pa_lsize[__CPROVER_POINTER_OBJECT(ptr) % PA_TAB] = size; pa_nrealloc++;
    return ptr;
}
