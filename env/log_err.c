/* Model of log.c and of set_error_wf (error.c is linked with that one body removed).
 * Keeps the observable effect on error_state, drops message building and output. */
#include <stdarg.h>
#include "zck_private.h"

void set_error_wf(zckCtx *zck, int fatal, const char *function, const char *format, ...) {
    (void)function; (void)format;
    if(zck == NULL)
        return;
    zck->error_state = 1 + (fatal > 0 ? 1 : 0);
}
void zck_log_v(const char *function, zck_log_type lt, const char *format, va_list args) {
    (void)function; (void)lt; (void)format; (void)args;
}
void zck_log_wf(const char *function, zck_log_type lt, const char *format, ...) {
    (void)function; (void)lt; (void)format;
}
void zck_set_log_level(zck_log_type ll) { (void)ll; }
void zck_set_log_fd(int fd) { (void)fd; }
void zck_set_log_callback(logcallback function) { (void)function; }
