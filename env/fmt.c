/* Contract-only model of the printf family: output is arbitrary bytes within the size limit, NUL terminated,
 * return value arbitrary >= 0.  Exact instances where formatting is the subject live in the harness that needs them
 * (compiled with -DV_FMT_EXACT_HEX / -DV_FMT_EXACT_RANGE). */
#include <stdarg.h>
#include <stddef.h>
#include <stdio.h>
#include "env.h"
#ifndef FMT_MAX
#define FMT_MAX 24
#endif
static int v_fmt_out(char *s, size_t n, int want) {
    if(n > 0) {
        __CPROVER_assert(__CPROVER_w_ok(s, n), "ENV/snprintf: destination writable for the stated size");
        for(size_t i = 0; i < FMT_MAX; i++) if(i + 1 < n && (int)i < want) s[i] = nondet_char();
        size_t end = (size_t)want < n - 1 ? (size_t)want : n - 1;
        if(end < FMT_MAX) s[end] = 0; else s[n - 1] = 0;
    }
    return want;
}
#if !defined(V_FMT_EXACT_HEX) && !defined(V_FMT_EXACT_RANGE)
int snprintf(char *s, size_t n, const char *fmt, ...) {
    (void)fmt;
    int want = nondet_int();
    __CPROVER_assume(want >= 0 && want < 64);
    return v_fmt_out(s, n, want);
}
#endif
int vsnprintf(char *s, size_t n, const char *fmt, va_list ap) {
    (void)fmt; (void)ap;
    int want = nondet_int();
    __CPROVER_assume(want >= 0 && want < 64);
    return v_fmt_out(s, n, want);
}
int printf(const char *fmt, ...) { (void)fmt; return 0; }
int dprintf(int fd, const char *fmt, ...) { (void)fd; (void)fmt; return 0; }
int fprintf(FILE *f, const char *fmt, ...) { (void)f; (void)fmt; return 0; }
