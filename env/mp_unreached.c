/* multipart.c is not linked in the plain-body harnesses (dl->boundary is NULL there); calling into it is a harness error. */
#include "zck_private.h"
size_t multipart_extract(zckDL *dl, char *b, size_t l) { (void)dl; (void)b; (void)l; __CPROVER_assert(0, "ENV/multipart_extract reached in a plain-body harness"); return 0; }
size_t multipart_get_boundary(zckDL *dl, char *b, size_t size) { (void)dl; (void)b; (void)size; __CPROVER_assert(0, "ENV/multipart_get_boundary reached in a plain-body harness"); return 0; }
void reset_mp(zckMP *mp) { if(mp && mp->buffer) free(mp->buffer); if(mp) { mp->state = 0; mp->length = 0; mp->buffer = NULL; mp->buffer_len = 0; } }
