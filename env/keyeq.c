/* byte-equality used by env/uthash_model.h */
#include <string.h>
int v_keyeq(const void *a, const void *b, unsigned n) { return memcmp(a, b, n) == 0; }
