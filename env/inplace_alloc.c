/* In-place model of zmalloc/zrealloc for harnesses whose subject is a buffer that is grown in a loop
 * (zck_get_range_char).  The buffer is one object of physical capacity IP_CAP; its *logical* size is tracked in
 * ip_size and every modelled write into it (snprintf model, harness read-back) is checked against the logical size.
 * Reason: a realloc that returns a fresh object per loop iteration makes the written pointer a merge of k objects and the
 * SAT instance grow ~3.5x per iteration (measured: > 14 GB at 7 iterations).  realloc returning the same pointer is
 * legal libc behaviour.  The real zmalloc/zrealloc bodies (calloc / realloc wrappers) are removed in these harnesses only. */
#include <stdlib.h>
#include "env.h"
#ifndef IP_CAP
#define IP_CAP 64
#endif
int pa_over;
void *ip_ptr; size_t ip_size; int ip_over; unsigned ip_nrealloc;
void *zmalloc(size_t size) {
    if(ip_ptr != NULL) { return calloc(1, size); }
    if(size > IP_CAP) { ip_over = 1; pa_over = 1; }
    ip_ptr = calloc(1, IP_CAP);
    __CPROVER_assume(ip_ptr != NULL);
    ip_size = size;
    return ip_ptr;
}
void *zrealloc(void *ptr, size_t size) {
    if(size == 0) { if(ptr) free(ptr); if(ptr == ip_ptr) { ip_size = 0; } return NULL; }
    if(ptr != ip_ptr || ptr == NULL) { void *n = realloc(ptr, size); __CPROVER_assume(n != NULL); return n; }
    if(size > IP_CAP) { ip_over = 1; pa_over = 1; }
    ip_size = size; ip_nrealloc++;
    return ptr;
}
/* same query interface as env/padalloc.c (one managed buffer) */
size_t pa_size_of(const void *p) { (void)p; return ip_size; }
int pa_is_managed(const void *p) { return p != NULL && ip_ptr != NULL && __CPROVER_same_object(p, ip_ptr); }

