"""C01: round trip through the real writer and the real reader, concrete shape per instance."""
from specs import ERR
_srcs = ["src/lib/comp/comp.c", "src/lib/comp/zstd/zstd.c", "src/lib/comp/nocomp/nocomp.c", "src/lib/hash/hash.c", "src/lib/io.c", "src/lib/error.c", "src/lib/zck.c",
         "src/lib/index/index_read.c", "src/lib/index/index_create.c", "src/lib/index/index_common.c", "src/lib/header.c", "src/lib/buzhash/buzhash.c"]
_rb = dict(ERR, **{"src/lib/hash/hash.c": ["get_digest_string", "validate_header", "validate_current_chunk", "validate_file"], "src/lib/zck.c": ["zmalloc", "zrealloc"]})
_m = ["compint_spec.c", "log_err.c", "files.c", "hash_acc.c", "fmt.c", "digeststr.c", "keyeq.c", "zstd_stub.c", "mem.c", "ringalloc.c"]
Z, N = "ZCK_COMP_ZSTD", "ZCK_COMP_NONE"
def W(name, comp, L, segs, ends, rs, tfd=5, unc=0, what=""):
    s = list(segs) + [0] * (4 - len(segs)); e = list(ends) + [0] * (4 - len(ends))
    d = ["-DFCAP=160", "-DIO_MAX=130", "-DHMAX=130", "-DMEM_MAX=130", "-DRA_MAX=130", "-DMEMSET_MAX=200", "-DV_READ_LOOP", "-DZS_MAX=8", "-DV_UTHASH_MODEL", "-DCOMP=%s" % comp, "-DL=%d" % L, "-DRS=%d" % rs, "-DTFD=%d" % tfd, "-DUNC=%d" % unc]
    d += ["-DS%d=%d" % (k + 1, x) for k, x in enumerate(s)] + ["-DE%d=%d" % (k + 1, x) for k, x in enumerate(e)]
    return dict(file="C01q.c", name="h01q-" + name, function="h01q", repo_srcs=_srcs, remove_bodies=_rb, models=_m, defines=d, unwind=202,
                unwindset=["comp_read.0:16"], cbmc_extra=["--max-field-sensitivity-array-size", "256"], what=what or name, timeout=900, mem_gb=12,
                functions=["zck_init_write", "zck_write", "zck_end_chunk", "zck_close", "header_create", "index_create", "write_header", "chunks_from_temp", "zck_init_read", "zck_read", "comp_read"],
                bounds="%s, content %d symbolic bytes, write calls %s, end-chunk flags %s, read size %d, temp descriptor %d, uncompressed-source flag %d" % (comp, L, segs, ends, rs, tfd, unc))
SPEC = {
    "explanation": __doc__ + "  Content bytes symbolic; every other parameter concrete per instance (compression none / zstd stub, manual chunking, several "
                   "segmentations incl. empty content, one-byte writes, writes spanning chunk ends, read sizes smaller / larger than a chunk).  The checksum "
                   "comparisons are recorded, not branched on, and all must come out equal.",
    "outside": ["automatic (buzhash) chunking: boundaries are data-dependent control flow - with symbolic content every byte forks the writer (see C16)", "dictionaries, other "
                "checksum types than the defaults, min/max chunk options, the zck / unzck tools (split strings)", "real libzstd", "shapes other than the listed ones"],
    "assumptions": ["hash back end env/hash_acc.c", "mkstemp returns the instance's descriptor number", "no I/O errors (C12)"],
    "level_note": "bounded model checking with concrete control shape per instance and symbolic content; DESIGN.md section 7 explains why symbolic shapes cannot be encoded",
    "harnesses": [
        W("z-one", Z, 3, [3], [0], 2, what="zstd, one write, chunk ended by close"),
        W("z-split", Z, 4, [1, 2, 1], [0, 1, 0], 1, what="zstd, three writes, end-chunk in the middle, 1-byte reads"),
        W("z-two", Z, 4, [2, 2], [1, 1], 4, what="zstd, two chunks, read larger than a chunk"),
        W("z-empty", Z, 0, [], [], 2, what="zstd, empty content"),
        W("n-split", N, 4, [1, 2, 1], [0, 1, 0], 1, what="no compression, three writes, 1-byte reads"),
        W("n-two", N, 4, [2, 2], [1, 1], 3, what="no compression, two chunks"),
        W("n-unc", N, 3, [3], [1], 2, unc=1, what="no compression with the uncompressed-source flag"),
    ],
}
