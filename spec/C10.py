from specs import ERR
_srcs = ["src/lib/dl/range.c", "src/lib/index/index_create.c", "src/lib/index/index_common.c", "src/lib/header.c",
         "src/lib/zck.c", "src/lib/error.c"]
_a = dict(file="C10.c", repo_srcs=_srcs, remove_bodies=ERR, models=["log_err.c", "digeststr.c"],
          functions=["zck_get_missing_range", "range_add", "range_insert_new", "range_merge_combined", "range_remove",
                     "zck_get_range_count", "zck_range_free", "index_new_chunk", "finish_chunk", "index_clean", "zck_get_header_length"])
_c = dict(file="C10.c", repo_srcs=_srcs, remove_bodies=dict(ERR, **{"src/lib/zck.c": ["zmalloc", "zrealloc"]}),
          models=["log_err.c", "digeststr.c", "fmt.c", "inplace_alloc.c"],
          functions=["zck_get_range_char", "zrealloc", "zmalloc"])
SPEC = {
    "explanation": "zck_get_missing_range on a directly constructed open context with n<=N chunks (symbolic stored sizes, validity vector, header "
                   "length, limit) against declarative set obligations; zck_get_range_char with an exact model of its one snprintf format, "
                   "BUF_SIZE scaled so that buffer growth and the exact-fit edge are inside the bound",
    "outside": ["more than N chunks / ranges (N = 3 quick, 4 thorough); the code is a loop over the chunk list whose body is covered for every "
                "neighbour configuration of up to N chunks", "range strings with offsets >= 10^2 (quick) / 10^3 (thorough): the decimal rendering "
                "is snprintf's (libc, trusted)", "BUF_SIZE is scaled from 32768 to 16 (the function is parametric in it)"],
    "assumptions": ["target context is in the state zck_read_header leaves (chunk starts are the running sum of stored sizes, C13)",
                    "chunk validity is 0 (missing) or 1 (valid); stored sizes 1..2^20 in h10a, dictionary entry of size 0 in h10b",
                    "get_digest_string (log text only) replaced by env/digeststr.c", "h10c: zmalloc/zrealloc replaced by env/inplace_alloc.c (realloc returns the same pointer; logical size tracked and checked by the snprintf model and the read-back)"],
    "harnesses": [
        dict(_a, name="h10a", function="h10a", what="missing-range computation vs set obligations",
             quick=dict(defines=["-DNCH=3"], unwind=6, unwindset=["fill_nondet.0:17", "memcmp.0:17"]), thorough=dict(defines=["-DNCH=4"], unwind=7, unwindset=["fill_nondet.0:17", "memcmp.0:17"], timeout=3000, mem_gb=16),
             bounds="n <= 3 (quick) / 4 (thorough; 5 ran out of 14 GB) chunks, sizes 1..2^20, header 24..2^20+89, any int limit"),
        dict(_a, name="h10b", function="h10b", what="same with an empty (zero-length) missing dictionary entry",
             quick=dict(defines=["-DNCH=3"], unwind=6, unwindset=["fill_nondet.0:17", "memcmp.0:17"]), thorough=dict(defines=["-DNCH=4"], unwind=7, unwindset=["fill_nondet.0:17", "memcmp.0:17"], timeout=3000, mem_gb=16),
             bounds="n <= 3 / 4 chunks, first chunk has stored size 0"),
        dict(_c, name="h10c", function="h10c", replay="range", what="range string rendering incl. buffer growth, exact fit and the empty request",
             quick=dict(defines=["-DNR=3", "-DRD=2", "-DV_BUF_SIZE=8", "-DV_FMT_EXACT_RANGE"], unwind=40, unwindset=["zck_get_range_char.0:8"]),
             thorough=dict(defines=["-DNR=3", "-DRD=3", "-DV_BUF_SIZE=16", "-DV_FMT_EXACT_RANGE"], unwind=40, unwindset=["zck_get_range_char.0:8"], timeout=3000, mem_gb=16),
             bounds="0..3 ranges, offsets < 100, BUF_SIZE=8 (quick); 0..3 ranges, offsets < 1000, BUF_SIZE=16 (thorough)"),
    ],
}
