from specs import ERR
_rb = dict(ERR)
_m = ["log_err.c", "fmt.c"]
def B(name, fn, bw, extra, what, bounds, tiers=("quick", "thorough")):
    return dict(file="C16.c", name=name, function=fn, repo_srcs=["src/lib/buzhash/buzhash.c"], remove_bodies={}, models=[],
                defines=["-DH_" + fn, "-DBW=%d" % bw] + list(extra), unwind=bw + 10, unwindset=[], what=what, bounds=bounds,
                functions=["buzhash_update", "buzhash_reset", "rol32"], tiers=tiers)
def W(name, fn, cn, bw, amin, amax, bits, what, tiers=("quick", "thorough"), timeout=900):
    return dict(file="C16.c", name=name, function=fn, repo_srcs=["src/lib/buzhash/buzhash.c", "src/lib/error.c"], included_srcs=["src/lib/comp/comp.c"],
                remove_bodies=_rb, models=_m,
                defines=["-DH_" + fn, "-DCN=%d" % cn, "-DBW=%d" % bw, "-DAMIN=%d" % amin, "-DAMAX=%d" % amax, "-DBBITS=%d" % bits],
                unwind=cn + 4, unwindset=["zck_write.1:%d" % (cn * (bw + 2) + 2), "update_buzhash_bits.0:%d" % (bits + 2)], what=what, timeout=timeout,
                bounds="content %d symbolic bytes; window %d, match bits %d, automatic minimum %d / maximum %d (scaled from 48 / 15 / 8192 / 131072); "
                       "codec and index bookkeeping are recorders" % (cn, bw, bits, amin, amax),
                functions=["zck_write", "zck_end_chunk", "comp_write", "buzhash_update", "buzhash_reset", "update_buzhash_bits"], tiers=tiers)
SPEC = {
    "explanation": "the rolling hash that decides automatic chunk boundaries (real buzhash.c): its output is a function of the last W bytes only - fill phase from a reset state "
                   "(no decision before the window is full, reset starts over) and one inductive step from an arbitrary full-window state for W = 3 and the shipped W = 48, "
                   "which gives locality / history independence of the boundary signal for streams of any length.  The automatic branch of zck_write around it is NOT decided "
                   "(harnesses h16w / h16p written, no verdict within 900 s).",
    "outside": ["zck_write / zck_end_chunk: use of the hash result, min / max handling, segmentation of write calls, reset at chunk end (h16w, h16p: no verdict within budget; a change there is NOT detected)", "what the codec stores for a chunk (zstd determinism / strategy pin: FFI)", "suffix re-synchronisation after an edit (follows from the window invariant h16b-step plus the reset in zck_end_chunk, not run as its own harness)",
                "manual chunking and the zck tool's split-string mode", "contents longer than CN bytes and the shipped constants in zck_write (the code is parametric in them; h16b covers the shipped window)",
                "scaled mask: 9 match bits with window 3 are chosen so that a window of identical bytes never matches (true for the shipped table with window 48 / 15 bits as well, computed in DESIGN.md), which bounds the re-feed loop"],
    "assumptions": ["comp.compress / comp.end_cchunk / index_add_to_chunk / index_finish_chunk replaced by recorders that always succeed", "context built directly in the state comp_init leaves for automatic chunking (chunk_auto_min/max, width, mask set by the harness)"],
    "level_note": "PARTIAL: only the rolling-hash kernel (buzhash_update / buzhash_reset) is decided - h16b-step is an inductive step (histories of any length for the fixed window 3 and 48), h16b-fill the start-up and reset; the chunker loop in zck_write that consumes the signal is outside (no verdict within budget)",
    "harnesses": [
        B("h16b-fill-w3", "h16b_fill", 3, ["-DBK=3"], "rolling hash from reset: no decision before the window is full, then the reference hash of the last W bytes; reset starts over", "window 3, 6 symbolic bytes, two rounds"),
        B("h16b-fill-w48", "h16b_fill", 48, ["-DBK=4"], "same with the shipped window", "window 48, 52 symbolic bytes, two rounds", tiers=("dev",)),  # no verdict in 1500 s
        B("h16b-step-w3", "h16b_step", 3, [], "inductive step of the rolling hash from an arbitrary full-window state", "window 3, any rotation, any content"),
        B("h16b-step-w48", "h16b_step", 48, [], "same with the shipped window", "window 48, any rotation, any content"),
        # the zck_write harnesses below are written but NOT registered in any tier: no end of symbolic execution within 900 s (6 bytes, window 3)
        W("h16w", "h16w", 6, 3, 2, 4, 9, "segmentation independence, min/max, in-order delivery of the automatic chunker", tiers=("dev",)),
        W("h16p", "h16p", 6, 3, 2, 4, 9, "prefix locality of the automatic chunker", tiers=("dev",)),
        W("h16w-4", "h16w", 4, 3, 2, 3, 9, "segmentation independence with 4 bytes (probe: no verdict in 270 s)", tiers=("dev",), timeout=270),
        W("h16w-7", "h16w", 7, 3, 2, 4, 9, "segmentation independence with 7 bytes", tiers=("dev",), timeout=3000),
        W("h16p-8", "h16p", 8, 3, 2, 4, 9, "prefix locality with 8 bytes", tiers=("dev",), timeout=3000),
    ],
}
