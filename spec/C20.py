from specs import ERR
_base = dict(file="C20.c", repo_srcs=["src/lib/compint.c", "src/lib/error.c"], remove_bodies=ERR,
             models=["log_err.c"], replay="compint")
SPEC = {
    "explanation": "compint.c decoded/encoded symbolically; buffer is an exact-size heap object so CBMC's "
                   "pointer checks are the guard page; oracle = 128-bit reference decode in the harness",
    "outside": ["nothing relevant: value width is full 64 bit, buffer length 1..12 covers every decoder path (max encoding 10 bytes + 2)"],
    "assumptions": ["calling convention as at every call site: compint = base + *length, max_length = size of base"],
    "harnesses": [
        dict(_base, name="h20a", function="h20a", unwind=14,
             what="compint_to_size on n<=12 symbolic bytes at symbolic cursor, vs exact 128-bit value",
             bounds="n in 1..12, cursor in 0..n, all byte values", functions=["compint_to_size"]),
        dict(_base, name="h20b", function="h20b", unwind=14,
             what="compint_to_int, accept iff value <= INT_MAX", bounds="n in 1..12, cursor 0..n",
             functions=["compint_to_int", "compint_to_size"]),
        dict(_base, name="h20c", function="h20c", unwind=12,
             what="compint_from_size then compint_to_size for every 64-bit value", bounds="all 2^64 values",
             functions=["compint_from_size", "compint_to_size"]),
        dict(_base, name="h20d", function="h20d", unwind=12,
             what="compint_from_int rejects negatives, equals size encoder, round trips", bounds="all 2^32 ints",
             functions=["compint_from_int", "compint_from_size", "compint_to_int"]),
        dict(_base, name="h20e", function="h20e", unwind=14, models=["log_err.c", "compint_spec.c"], defines=["-DSPEC_PREFIXED"], replay=None,
             what="env/compint_spec.c (straight-line reference used by parser harnesses) equals the real compint.c: verdict, value, cursor, error state, encoder bytes",
             bounds="n in 1..12, cursor 0..n, all bytes, all 64-bit values, any prior error state",
             functions=["compint_to_size", "compint_to_int", "compint_from_size"]),
    ],
}
