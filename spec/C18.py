_sha2 = ["src/lib/hash/bundled/sha2/sha2.c"]
_sha1 = ["src/lib/hash/bundled/sha1/sha1.c"]
_inc = ["-I", "/repo/src/lib/hash/bundled/sha2", "-I", "/repo/src/lib/hash/bundled/sha1", "-DV_NO_PRIVATE"]
def T1(name, srcs, what, fns, **kw):
    return dict(file="C18.c", name=name, function=name, repo_srcs=srcs, models=[], defines=_inc + ["-DH_" + name], unwind=130,
                solver="default", tiers=("manual",), what=what, bounds="one block, symbolic chaining value and block (all 2^768 / 2^1536 inputs)", functions=fns, timeout=3300, mem_gb=16, **kw)
def T2(fn, srcs, rb, L, prior, what, fns, tiers=("quick", "thorough"), suffix="", **kw):
    lmax = max(L, 1)
    return dict(file="C18.c", name="%s-L%d%s" % (fn, L, suffix), function=fn, repo_srcs=srcs, remove_bodies=rb, models=[],
                defines=_inc + ["-DH_" + fn, "-DLMAX=%d" % lmax, "-DLCONC=%d" % L, "-DPRIORMAX=%s" % prior], unwind=max(lmax, 128) + 4,
                what=what + ", message length %d" % L, bounds="message length %d (symbolic content), every 2-way split into update calls, 0..%s whole blocks absorbed before" % (L, prior),
                functions=fns, tiers=tiers, timeout=kw.pop("timeout", 2400), **kw)
_rb256 = {"src/lib/hash/bundled/sha2/sha2.c": ["sha256_transf"]}
_rb512 = {"src/lib/hash/bundled/sha2/sha2.c": ["sha512_transf"]}
_rb1 = {"src/lib/hash/bundled/sha1/sha1.c": ["SHA1_Transform"]}
_f256 = ["sha256_init", "sha256_update", "sha256_final"]; _f512 = ["sha512_init", "sha512_update", "sha512_final"]; _f1 = ["SHA1_Init", "SHA1_Update", "SHA1_Final"]
_p = []
for L in (0, 1, 55, 56, 63, 64, 65, 119, 120, 128):
    _p.append(T2("h18p256", _sha2, _rb256, L, "(1u<<22)", "SHA-256 init/update/final block protocol", _f256, tiers=("quick", "thorough") if L in (0, 55, 56, 64, 120) else ("thorough",)))
    _p.append(T2("h18p1", _sha1, _rb1, L, "0", "SHA-1 Init/Update/Final block protocol", _f1, tiers=("quick", "thorough") if L in (0, 55, 56, 64, 128) else ("thorough",)))
for L in (0, 1, 111, 112, 127, 128):
    _p.append(T2("h18p512", _sha2, _rb512, L, "(1u<<21)", "SHA-512 init/update/final block protocol", _f512, tiers=("quick", "thorough") if L in (0, 111, 112) else ("thorough",)))
_p.append(T2("h18p256", _sha2, _rb256, 8, "0xffffffffu", "SHA-256 protocol after up to 256 GiB of earlier data (width of the length field)", _f256, suffix="-long"))
_p.append(T2("h18p512", _sha2, _rb512, 8, "0xffffffffu", "SHA-512 protocol after up to 512 GiB of earlier data (width of the length field)", _f512, suffix="-long"))
_p.append(T2("h18p1", _sha1, _rb1, 8, "0x20000005u", "SHA-1 protocol after 32 GiB of earlier data (64-bit bit count across its two words)", _f1, suffix="-long"))
SPEC = {
    "explanation": "T1: sha256_transf / sha512_transf / SHA1_Transform equal the FIPS 180-4 compression functions written in the harness (constants "
                   "computed independently) for every chaining value and block (SMT, cvc5).  T2: init/update/final with the compression function "
                   "replaced by a recorder: for message lengths at the block/padding boundaries (concrete per instance, symbolic content), every 2-way split and any number of previously absorbed blocks "
                   "the recorded blocks are exactly the standard's padding of the message and the digest is the big-endian chaining value.",
    "outside": ["OpenSSL's own SHA code (binary FFI, trusted to implement FIPS 180-4)", "message lengths other than the listed ones for the final segment; 3-way and finer splits "
                "(longer prefixes are covered through the symbolic number of previously absorbed blocks)",
                "src/lib/hash/openssl/openssl.c glue (type -> EVP_* mapping) is read, not encoded"],
    "assumptions": ["SHA-512/128 is the first 16 bytes of SHA-512: hash_setup's digest_size (C13/C07 harnesses) - the back end computes full SHA-512"],
    "level_note": "T2 (padding/block protocol, SAT) and the constant tables are decided; T1 (compression-function equivalence, harnesses h18a/b/c) is written but NOT registered in any tier: no back end finished it within 900 s in this sandbox, so the round functions themselves are covered only through the constant tables; real sha2.c/sha1.c compiled by goto-cc; little-endian x86-64 configuration",
    "harnesses": [
        T1("h18a", _sha2, "sha256_transf == FIPS 180-4 SHA-256 compression", ["sha256_transf"]),
        T1("h18b", _sha2, "sha512_transf == FIPS 180-4 SHA-512 compression", ["sha512_transf"]),
        T1("h18c", _sha1, "SHA1_Transform == FIPS 180-4 SHA-1 compression", ["SHA1_Transform"]),
        dict(file="C18.c", name="h18k", function="h18k", repo_srcs=_sha2, models=[], defines=_inc + ["-DH_h18k"], unwind=82, what="round constants and initial values of sha2.c equal independently computed FIPS values",
             bounds="all 64+80+16 table entries", functions=["sha256_k", "sha512_k", "sha256_h0", "sha512_h0"]),
    ] + _p + [
    ],
}
