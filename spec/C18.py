_sha2 = ["src/lib/hash/bundled/sha2/sha2.c"]
_sha1 = ["src/lib/hash/bundled/sha1/sha1.c"]
_inc = ["-I", "/repo/src/lib/hash/bundled/sha2", "-I", "/repo/src/lib/hash/bundled/sha1", "-DV_NO_PRIVATE"]
def T1(name, srcs, what, fns, **kw):
    return dict(file="C18.c", name=name, function=name, repo_srcs=srcs, models=[], defines=_inc + ["-DH_" + name], unwind=130,
                solver="cvc5plain", what=what, bounds="one block, symbolic chaining value and block (all 2^768 / 2^1536 inputs)", functions=fns, timeout=900, **kw)
def T2(name, fn, srcs, rb, lmax, prior, what, fns, tiers=("quick", "thorough"), **kw):
    return dict(file="C18.c", name=name, function=fn, repo_srcs=srcs, remove_bodies=rb, models=[],
                defines=_inc + ["-DH_" + fn, "-DLMAX=%d" % lmax, "-DPRIORMAX=%s" % prior], unwind=max(lmax, 128) + 2,
                what=what, bounds="message length 0..%d, every split into three update calls, 0..%s whole blocks absorbed before" % (lmax, prior),
                functions=fns, tiers=tiers, **kw)
SPEC = {
    "explanation": "T1: sha256_transf / sha512_transf / SHA1_Transform equal the FIPS 180-4 compression functions written in the harness (constants "
                   "computed independently) for every chaining value and block (SMT, cvc5).  T2: init/update/final with the compression function "
                   "replaced by a recorder: for every message up to LMAX bytes, every 3-way split and any number of previously absorbed blocks "
                   "the recorded blocks are exactly the standard's padding of the message and the digest is the big-endian chaining value.",
    "outside": ["OpenSSL's own SHA code (binary FFI, trusted to implement FIPS 180-4)", "messages longer than LMAX bytes per final segment "
                "(longer prefixes are covered through the symbolic number of previously absorbed blocks)",
                "src/lib/hash/openssl/openssl.c glue (type -> EVP_* mapping) is read, not encoded"],
    "assumptions": ["SHA-512/128 is the first 16 bytes of SHA-512: hash_setup's digest_size (C13/C07 harnesses) - the back end computes full SHA-512"],
    "level_note": "T1 decided by cvc5 (bit-vector SMT), T2 by SAT; real sha2.c/sha1.c compiled by goto-cc; little-endian x86-64 configuration",
    "harnesses": [
        T1("h18a", _sha2, "sha256_transf == FIPS 180-4 SHA-256 compression", ["sha256_transf"]),
        T1("h18b", _sha2, "sha512_transf == FIPS 180-4 SHA-512 compression", ["sha512_transf"]),
        T1("h18c", _sha1, "SHA1_Transform == FIPS 180-4 SHA-1 compression", ["SHA1_Transform"]),
        T2("h18p256", "h18p256", _sha2, {"src/lib/hash/bundled/sha2/sha2.c": ["sha256_transf"]}, 70, "(1u<<22)", "SHA-256 init/update/final block protocol", ["sha256_init", "sha256_update", "sha256_final"]),
        T2("h18p512", "h18p512", _sha2, {"src/lib/hash/bundled/sha2/sha2.c": ["sha512_transf"]}, 134, "(1u<<21)", "SHA-512 init/update/final block protocol", ["sha512_init", "sha512_update", "sha512_final"], mem_gb=12, timeout=1500),
        T2("h18p1", "h18p1", _sha1, {"src/lib/hash/bundled/sha1/sha1.c": ["SHA1_Transform"]}, 70, "(1u<<26)", "SHA-1 Init/Update/Final block protocol", ["SHA1_Init", "SHA1_Update", "SHA1_Final"]),
        T2("h18p256-long", "h18p256", _sha2, {"src/lib/hash/bundled/sha2/sha2.c": ["sha256_transf"]}, 8, "0x3ffffffu", "SHA-256 protocol after up to 4 GiB of earlier data (length field width)", ["sha256_update", "sha256_final"]),
        T2("h18p512-long", "h18p512", _sha2, {"src/lib/hash/bundled/sha2/sha2.c": ["sha512_transf"]}, 8, "0x1ffffffu", "SHA-512 protocol after up to 4 GiB of earlier data (length field width)", ["sha512_update", "sha512_final"]),
    ],
}
