from specs import ERR
LIB = ["src/lib/compint.c", "src/lib/error.c", "src/lib/hash/hash.c", "src/lib/io.c"]
_a = dict(file="C07.c", repo_srcs=["src/lib/error.c"], remove_bodies=ERR, models=["log_err.c"], included_srcs=["src/lib/zck.c"])
_b = dict(file="C07.c", repo_srcs=["src/lib/error.c", "src/lib/hash/hash.c"], remove_bodies=ERR,
          models=["log_err.c", "hash_nondet.c", "fmt.c"], included_srcs=["src/lib/zck.c"])
_c = dict(file="C07.c", repo_srcs=LIB + ["src/lib/header.c", "src/lib/zck.c"], remove_bodies=dict(ERR, **{"src/lib/hash/hash.c": ["get_digest_string"]}),
          models=["log_err.c", "files.c", "hash_nondet.c", "fmt.c", "digeststr.c"],
          quick=dict(defines=["-DFCAP=64"], unwind=68, mem_gb=10), thorough=dict(defines=["-DFCAP=92"], unwind=98, mem_gb=30, timeout=3000))
SPEC = {
    "explanation": "hex_to_int on every char value; the digest-string option on a symbolic string of symbolic length; "
                   "read_lead/zck_validate_lead on a symbolic file of symbolic size with symbolic pins, against a lead parser "
                   "written from zchunk_format.txt with 128-bit arithmetic",
    "outside": ["files longer than 96 bytes (the lead is at most 25+64 bytes, so nothing of the lead lies outside)",
                "the subsequent header checksum comparison is C06"],
    "assumptions": ["pins are in the states the option setters can produce (type in -1..3, digest only together with a type and exactly "
                    "digest_size bytes long, size -1 or >= 0)", "hash backend replaced by env/hash_nondet.c (not exercised by the lead)"],
    "harnesses": [
        dict(_a, name="h07a", function="h07a", unwind=2, what="hex_to_int for all 256 char values vs isxdigit value",
             bounds="all chars", functions=["hex_to_int"]),
        dict(_b, name="h07b", function="h07b", unwind=140, what="zck_set_soption(ZCK_VAL_HEADER_DIGEST) with symbolic string",
             bounds="length 0..130, type -1..5, all byte values", functions=["zck_set_soption", "zck_set_ioption", "ascii_checksum_to_bin", "hex_to_int", "hash_setup"]),
        dict(_c, name="h07c", function="h07c", unwind=98,
             what="zck_read_lead on a symbolic file with symbolic pins vs reference lead parser", bounds="file size 0..96, all bytes; pins symbolic",
             functions=["zck_read_lead", "read_lead", "compint_to_int", "compint_to_size", "hash_setup", "read_data"]),
        dict(_c, name="h07d", function="h07d", unwind=98,
             what="zck_validate_lead then zck_read_lead: stream position, clean context, same verdict", bounds="as h07c",
             functions=["zck_validate_lead", "zck_read_lead", "read_lead", "seek_data", "zck_clear_error"]),
    ],
}
