from specs import ERR
_srcs = ["src/lib/dl/dl.c", "src/lib/hash/hash.c", "src/lib/io.c", "src/lib/error.c", "src/lib/zck.c", "src/lib/index/index_read.c"]
_rb = dict(ERR, **{"src/lib/hash/hash.c": ["get_digest_string"]})
_m = ["log_err.c", "files.c", "hash_acc.c", "fmt.c", "digeststr.c", "keyeq.c", "regex_stub.c"]
def H(name, nch, fcap, buf, cmax, what, fns, tiers=("quick", "thorough"), **kw):
    return dict(file="C08.c", name=name, function=name[:4], repo_srcs=_srcs, remove_bodies=_rb, models=_m,
                defines=["-DNCH=%d" % nch, "-DFCAP=%d" % fcap, "-DV_BUF_SIZE=%d" % buf, "-DCMAX=%d" % cmax, "-DDOFF=2", "-DHMAX=8", "-DV_UTHASH_MODEL", "-DH_" + name[:4]],
                unwind=66, unwindset=["zck_copy_chunks.%d:%d" % (k, nch + 2) for k in range(3)] + ["write_and_verify_chunk.0:%d" % (cmax // buf + 3), "zero_chunk.0:%d" % (cmax // buf + 3),
                                      "zck_find_matching_chunks.%d:%d" % (0, nch + 2)] + ["zck_find_matching_chunks.%d:%d" % (k, nch + 2) for k in range(1, 7)] +
                                     ["zck_generate_hashdb.%d:%d" % (k, nch + 2) for k in range(7)] + ["memcmp.0:18"],
                what=what, functions=fns, tiers=tiers,
                bounds="%d chunks per side, stored sizes 1..%d, both files 0..%d bytes with arbitrary content, BUF_SIZE=%d, any digests / valid marks" % (nch, cmax, fcap, buf), **kw)
_fa = ["zck_copy_chunks", "write_and_verify_chunk", "zero_chunk", "zck_generate_hashdb", "hash_init", "hash_update", "hash_finalize", "read_data", "write_data", "seek_data"]
SPEC = {
    "explanation": "zck_copy_chunks / zck_find_matching_chunks on two directly constructed opened contexts with arbitrary indexes and arbitrary "
                   "(corrupt, truncated, mis-indexed) source and target files; obligations are stated on the target file bytes with the ideal hash",
    "outside": ["more / larger chunks; repeated copies from several sources (each call starts from an arbitrary marking, so sequences follow by induction "
                "on the obligations 'valid => bytes hash to the target digest' and 'already valid stays valid')", "real SHA (C18); uthash internals (list model)"],
    "assumptions": ["hash back end = env/hash_acc.c (deterministic, injective on the short messages used)", "contexts in the state zck_read_header leaves; stored sizes >= 1",
                    "no I/O errors here (C12)"],
    "harnesses": [
        H("h08a", 2, 9, 2, 3, "copy: validity implies matching bytes, full-match precondition, zero fill, source untouched, confinement", _fa),
        H("h08b", 2, 9, 2, 3, "index-only matching pairs only equal digests (stored or uncompressed) and equal lengths, without I/O", ["zck_find_matching_chunks", "zck_generate_hashdb"]),
    ],
}
