from specs import ERR
_srcs = ["src/lib/compint.c", "src/lib/error.c", "src/lib/hash/hash.c", "src/lib/io.c", "src/lib/zck.c",
         "src/lib/index/index_create.c", "src/lib/index/index_common.c"]
_rb = dict(ERR, **{"src/lib/hash/hash.c": ["get_digest_string"]})
_m = ["log_err.c", "files.c", "hash_acc.c", "fmt.c", "digeststr.c"]
def _h(name, ht, fcap, hmax, unwind, extra=(), **kw):
    return dict(file="C06.c", name="%s-t%d" % (name, ht), function=name, repo_srcs=_srcs, included_srcs=["src/lib/header.c"],
                remove_bodies=dict(_rb, **{"src/lib/zck.c": ["zmalloc", "zrealloc"]}),
                models=_m + (["mem.c", "padalloc.c"] if name == "h06w" else ["padalloc.c"]), defines=["-DHT=%d" % ht, "-DFCAP=%d" % fcap, "-DHMAX=%d" % hmax, "-DH_%s" % name, "-DV_PADALLOC", "-DMEM_MAX=%d" % fcap, "-DPA_CAP=%d" % fcap] + list(extra),
                unwind=max(unwind, 66), **kw)
_f = ["read_header_from_file", "validate_header", "hash_init", "hash_update", "hash_finalize", "read_data", "zrealloc"]
_fw = ["header_create", "index_create", "preface_create", "sig_create", "lead_create", "compint_from_size", "compint_from_int",
       "hash_init", "hash_update", "hash_finalize"]
import C07 as _c07
_lead = dict([h for h in _c07.SPEC["harnesses"] if h["name"] == "h07c"][0])
_lead.update(name="h06l-lead", defines=list(_lead.get("defines", [])) + ["-DH_h07c"], what="the lead stage accepts only the two identifiers and a well-formed lead (same harness as C07 h07c): bytes 0..4 "
             "are not in the hashed message, so this comparison is what covers them")
SPEC = {
    "explanation": "read_header_from_file+validate_header run on the state a successful lead read leaves (built from a symbolic file through the "
                   "reference lead parser; h07c proves the real read_lead yields it) with a recording hash model: the hashed message must be "
                   "id || lead[5..digest) || header[lead_size..end) byte for byte and acceptance needs equality on every digest byte; "
                   "h06i: two symbolic files run through the real code with equal message and stored digest are equal on [5,end); "
                   "h06w: header_create stores the digest of the same ranges",
    "outside": ["headers longer than the bound (header_length <= ~14 bytes after a lead of <= 25+digest bytes); the code is a single "
                "hash_update over the whole remaining header, independent of its content",
                "collision resistance of SHA-1/SHA-256/SHA-512 (assumed: it is what turns 'same digest' into 'same message')",
                "the lead's own parsing (C07 h07c) and everything after the checksum gate (C13)"],
    "assumptions": ["hash back end replaced by env/hash_acc.c (records the message; digest deterministic)",
                    "zmalloc/zrealloc replaced by env/padalloc.c (fixed-capacity buffers with tracked logical size), memcpy/memset by env/mem.c", "LeadInv state constructed from the reference lead parser (proved equal to read_lead's result by C07 h07c)"],
    "harnesses": [
        _lead,
        _h("h06r", 3, 56, 40, 58, what="reader: hashed message and digest comparison, SHA-512/128 (16-byte digest)", bounds="file <= 56 bytes, header_length 1..12", functions=_f),
        _h("h06r", 0, 60, 40, 62, what="same, SHA-1 (20-byte digest, not a multiple of 8)", bounds="file <= 60 bytes", functions=_f),
        _h("h06r", 1, 72, 40, 74, what="same, SHA-256", bounds="file <= 72 bytes", functions=_f, tiers=("thorough",)),
        _h("h06r", 2, 104, 40, 106, what="same, SHA-512", bounds="file <= 104 bytes", functions=_f, tiers=("thorough",), mem_gb=16, timeout=3000),
        _h("h06i", 3, 48, 32, 50, what="layout injectivity on the messages the real code hashed for two symbolic files", bounds="two files <= 48 bytes, header_length 1..6", functions=_f, mem_gb=12, timeout=1500, extra=["-DHLMAX=6"]),
        _h("h06w", 3, 96, 96, 98, what="writer: header_create seals the same ranges", bounds="0..1 chunk, 16-byte digests", functions=_fw, extra=["-DWN=1"], unwindset=["compint_from_size.0:11", "fill_nondet.0:17", "memcpy.0:98", "memset.0:98", "memcmp.0:98"]),
        _h("h06w", 0, 96, 96, 98, what="writer, SHA-1 header digest", bounds="0..1 chunk", functions=_fw, extra=["-DWN=1"], unwindset=["compint_from_size.0:11", "fill_nondet.0:17", "memcpy.0:98", "memset.0:98", "memcmp.0:98"], tiers=("thorough",)),
    ],
}
