from specs import ERR
_srcs = ["src/lib/comp/comp.c", "src/lib/comp/zstd/zstd.c", "src/lib/comp/nocomp/nocomp.c", "src/lib/hash/hash.c", "src/lib/io.c", "src/lib/error.c",
         "src/lib/zck.c", "src/lib/index/index_read.c", "src/lib/index/index_create.c", "src/lib/index/index_common.c", "src/lib/header.c"]
_rb = dict(ERR, **{"src/lib/hash/hash.c": ["get_digest_string"], "src/lib/zck.c": ["zmalloc", "zrealloc"]})
_m = ["compint_spec.c", "log_err.c", "files.c", "hash_acc.c", "fmt.c", "digeststr.c", "keyeq.c", "zstd_stub.c", "padalloc.c", "mem.c"]
_fn = ["zck_read", "comp_read", "comp_read_from_dc", "comp_add_to_data", "comp_end_dchunk", "comp_add_to_dc", "comp_init", "zstd end_dchunk", "nocomp decompress",
       "validate_current_chunk", "validate_chunk", "validate_file", "zck_close", "hash_init", "hash_update", "hash_finalize", "read_data"]
def H(name, fn, comp, nch, fcap, cmax, nrd, rmax, what, tiers=("quick", "thorough"), extra=(), **kw):
    return dict(file="C15.c", name=name, function=fn, repo_srcs=_srcs, remove_bodies=_rb, models=_m,
                defines=["-DNCH=%d" % nch, "-DFCAP=%d" % fcap, "-DCMAX=%d" % cmax, "-DNRD=%d" % nrd, "-DRMAX=%d" % rmax, "-DCOMP=%s" % comp, "-DDOFF=2", "-DHMAX=12",
                         "-DZS_MAX=8", "-DV_PADALLOC", "-DPA_CAP=8", "-DMEM_MAX=8", "-DMEMSET_MAX=200", "-DV_UTHASH_MODEL", "-DH_" + fn] + list(extra),
                unwind=34, unwindset=["comp_read.0:9", "memset.0:202", "model_digest.0:66", "model_digest.1:66", "model_digest.2:66", "lib_hash_final.0:66", "lib_hash_final.1:66", "fill_nondet.0:34",
                                      "memcmp.0:34", "memcpy.0:10"],
                what=what, functions=_fn, tiers=tiers,
                bounds="empty dictionary + %d data chunk(s) of 1..%d stored bytes, declared sizes 0..%d, file 0..%d arbitrary bytes, %d reads of 1..%d bytes" % (nch - 1, cmax, cmax + 1, fcap, nrd, rmax), **kw)
_u = dict(file="C15u.c", name="h15u", function="h15u", repo_srcs=[x for x in _srcs if x != "src/lib/comp/comp.c"], included_srcs=["src/lib/comp/comp.c"],
          remove_bodies=dict(ERR, **{"src/lib/hash/hash.c": ["get_digest_string"]}), models=["compint_spec.c", "log_err.c", "files.c", "hash_acc.c", "fmt.c", "digeststr.c", "keyeq.c", "zstd_stub.c"],
          defines=["-DNCH=2", "-DFCAP=4", "-DCMAX=3", "-DHMAX=8", "-DZS_MAX=8", "-DV_UTHASH_MODEL"], unwind=66, unwindset=["memset.0:200"],
          what="chunk-end step of the reader (comp_end_dchunk) from the state reached when the last stored byte of a zstd chunk was read: failure and an empty output buffer on checksum mismatch; exact decoding on acceptance",
          bounds="stored size 1..3 (all byte values), declared size 0..4, any digest", functions=["comp_end_dchunk", "zstd end_dchunk", "comp_add_to_dc", "validate_current_chunk", "validate_chunk", "hash_finalize"])
_qsrcs = _srcs
_qrb = dict(ERR, **{"src/lib/hash/hash.c": ["get_digest_string", "validate_current_chunk", "validate_file"]})
_qm = ["compint_spec.c", "log_err.c", "files.c", "hash_nondet.c", "fmt.c", "digeststr.c", "keyeq.c", "zstd_stub.c"]
def Q(name, comp, nch, shape, fsz, w, clr, what, extra=()):
    d = ["-DNCH=%d" % nch, "-DFCAP=10", "-DDOFF=2", "-DZS_MAX=8", "-DZS_SIMPLE_DICT", "-DV_UTHASH_MODEL", "-DCOMP=%s" % comp, "-DFSZ=%d" % fsz, "-DCLR=%d" % clr, "-DH_h15q"]
    for k, (cl, ul, v) in enumerate(shape, 1):
        d += ["-DCL%d=%d" % (k, cl), "-DUL%d=%d" % (k, ul), "-DV%d=%d" % (k, v)]
    d += ["-DW%d=%d" % (k + 1, x) for k, x in enumerate(w)]
    return dict(file="C15q.c", name="h15q-" + name, function="h15q", repo_srcs=_qsrcs, remove_bodies=_qrb, models=_qm, defines=d + list(extra), unwind=66,
                unwindset=["comp_read.0:14"], what=what, functions=_fn, timeout=600,
                bounds="concrete shape: %s, chunks (stored,declared,verdict)=%s, file length %d, request sizes %s, clear-error=%d; all data bytes symbolic" % (comp, shape, fsz, w, clr))
Z, N = "ZCK_COMP_ZSTD", "ZCK_COMP_NONE"
_QI = [
    ("good-w1", Z, 2, [(3, 2, 1)], 5, (1, 1, 1, 1), 0, "intact zstd chunk, 1-byte reads to EOF and close"),
    ("good-w2", Z, 2, [(3, 2, 1)], 5, (2, 2, 2, 0), 0, "intact zstd chunk, reads as large as the chunk"),
    ("good-w3", Z, 2, [(3, 2, 1)], 5, (3, 3, 0, 0), 0, "intact zstd chunk, reads larger than the chunk"),
    ("bad-w1", Z, 2, [(3, 2, -1)], 5, (1, 1, 1, 1), 0, "zstd chunk failing its checksum, buffer smaller than the chunk"),
    ("bad-w1-clr", Z, 2, [(3, 2, -1)], 5, (1, 1, 1, 1), 1, "same, caller clears the error and reads on"),
    ("bad-w3", Z, 2, [(3, 2, -1)], 5, (3, 1, 1, 0), 0, "zstd chunk failing its checksum, buffer larger than the chunk"),
    ("trunc-w1", Z, 2, [(3, 2, 1)], 4, (1, 1, 1, 1), 0, "file truncated inside the chunk"),
    ("declbig", Z, 2, [(3, 3, 1)], 5, (1, 1, 1, 1), 0, "declared size larger than what the codec returns"),
    ("two-good", Z, 3, [(2, 1, 1), (2, 1, 1)], 6, (1, 1, 1, 0), 0, "two intact zstd chunks"),
    ("two-bad2", Z, 3, [(2, 1, 1), (2, 1, -1)], 6, (1, 1, 1, 0), 0, "second of two chunks fails its checksum"),
    ("two-bad1", Z, 3, [(2, 1, -1), (2, 1, 1)], 6, (1, 1, 1, 0), 1, "first of two chunks fails its checksum, caller clears the error"),
    ("badmarker", Z, 2, [(3, 2, 1)], 5, (1, 1, 1, 0), 0, "stored bytes match the checksum but do not decode (wrong frame marker)", ("-DM1=0",)),
    ("dict-good", Z, 3, [(2, 1, 1), (2, 1, 1)], 8, (1, 1, 1, 0), 0, "zstd with a dictionary chunk: sequential read decodes both data chunks with it", ("-DCL0=2", "-DUL0=1", "-DM1=0x26", "-DM2=0x26")),
    ("dict-rejected", Z, 3, [(2, 1, 1), (2, 1, 1)], 8, (1, 1, 0, 0), 0, "dictionary chunk that the codec rejects: clean failure and clean free", ("-DCL0=2", "-DUL0=1", "-DM1=0x26", "-DM2=0x26", "-DZS_DDICT_FAIL")),
    ("nocomp-dict", N, 3, [(1, 1, 1), (2, 2, 1)], 6, (1, 1, 1, 1), 0, "no compression with a dictionary chunk", ("-DNOC15", "-DCL0=1", "-DUL0=1")),
    ("nocomp-good", N, 2, [(2, 2, 1)], 4, (1, 1, 1, 0), 0, "uncompressed chunk, intact", ("-DNOC15",)),
    ("nocomp-bad", N, 2, [(2, 2, -1)], 4, (1, 1, 1, 0), 0, "uncompressed chunk failing its checksum: read to end and close must not succeed", ("-DNOC15",)),
]
SPEC = {
    "explanation": "one inductive step of the reader at a chunk end (comp_end_dchunk, the only place where decoded bytes of a unit-decoded chunk enter the output "
                   "buffer), from the state comp_read has there, for all stored bytes / digests / declared sizes: on a checksum mismatch the step fails and "
                   "buffers nothing; on acceptance the buffer holds exactly the decoding.  The loop around it (comp_read) is NOT encoded (out of memory).",
    "outside": ["comp_read's use of the step result (the caller's `< 0` test) and everything else in the read loop: not encodable within 16 GB; read by hand only", "real libzstd (codec-A stub: 1 marker byte + data; decoding fails on a wrong marker or wrong length)", "dictionaries (empty dictionary entry only)",
                "more chunks / longer reads than the bound"],
    "assumptions": ["zmalloc/zrealloc replaced by env/padalloc.c (fixed-capacity buffers, logical size tracked and checked by env/mem.c): direct stores past the logical size are not flagged here", "context in the state zck_read_header leaves (C13)", "hash back end = env/hash_acc.c", "no I/O errors (C12)"],
    "level_note": "h15u decides the chunk-end step for ALL stored bytes / digests / declared sizes; the h15q instances run the whole read path with sizes, file length, request sizes, frame markers and per-chunk verdicts concrete per instance and payload bytes symbolic (DESIGN.md section 7)",
    "harnesses": [
        _u,
        # whole read path with a concrete shape per instance (sizes, file length, request sizes, checksum verdicts); bytes symbolic
    ] + [Q(*a) for a in _QI] + [
        # whole-path harnesses (h15r: sequential reads vs reference decoding, h15v: nondeterministic checksum verdict) are kept in
        # harness/C15.c but not registered: smallest instance (1 data chunk, 2 reads of <= 2 bytes) exhausted 16 GB (DESIGN.md section 7)
    ],
}
