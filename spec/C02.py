"""C02: success implies verified, correct content - the whole read path (zck_read ... zck_close) with a concrete shape per instance."""
import C15 as _c
def _t(h):
    h = dict(h); return h
SPEC = {
    "explanation": "sequential zck_read to end of stream and zck_close over one or two chunks, with sizes, file length, request sizes, frame markers and the per-chunk "
                   "checksum verdicts concrete per instance (13 instances: intact, corrupt first/second chunk, truncated, declared size too large, wrong frame marker, "
                   "uncompressed) and all payload bytes symbolic: every released byte equals the reference decoding at its position; a read to EOF plus a successful "
                   "close happens only for files the reference decoder accepts and returns the whole content.  The checksum comparison itself is decided for all "
                   "inputs by h15u (chunk-end step), C09 (scan), C06 (header gate), C13 (metadata).",
    "outside": ["shapes other than the listed ones (more chunks, larger sizes, dictionaries)", "real libzstd (codec-A stub)", "unzck's main loop"],
    "assumptions": ["validate_current_chunk replaced by a recorder that returns the instance's verdict (its real body: h15u / C09)", "hash back end env/hash_nondet.c (whole-data digest verdict arbitrary at close)",
                    "context in the state zck_read_header leaves (C13)"],
    "level_note": "bounded model checking with concrete control shape per instance and symbolic data; see DESIGN.md section 7 for why symbolic shapes cannot be encoded",
    "harnesses": [_t(h) for h in _c.SPEC["harnesses"]],
}
