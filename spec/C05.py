from specs import ERR
_srcs = ["src/lib/dl/dl.c", "src/lib/hash/hash.c", "src/lib/io.c", "src/lib/error.c", "src/lib/zck.c", "src/lib/index/index_read.c"]
_rb = dict(ERR, **{"src/lib/hash/hash.c": ["get_digest_string"]})
_m = ["log_err.c", "files.c", "hash_acc.c", "fmt.c", "digeststr.c", "keyeq.c", "regex_stub.c", "mp_unreached.c"]
def H(name, nch, fcap, buf, cmax, what, tiers=("quick", "thorough"), **kw):
    return dict(file="C05.c", name=name, function=name[:4], repo_srcs=_srcs, remove_bodies=_rb, models=_m,
                defines=["-DNCH=%d" % nch, "-DFCAP=%d" % fcap, "-DV_BUF_SIZE=%d" % buf, "-DCMAX=%d" % cmax, "-DDOFF=2", "-DHMAX=8", "-DV_UTHASH_MODEL", "-DH_" + name[:4]],
                unwind=max(18, fcap + 2), unwindset=["dl_write_range:%d" % (nch + 2), "zero_chunk.0:%d" % (cmax // buf + 2), "dl_write_range.0:%d" % (nch + 2), "model_digest.0:66", "model_digest.1:66", "model_digest.2:66", "lib_hash_final.0:66", "lib_hash_final.1:66"],
                what=what, functions=["zck_write_chunk_cb", "dl_write_range", "dl_write", "set_chunk_valid", "zero_chunk", "validate_chunk", "zck_dl_init", "zck_dl_set_range",
                                      "hash_init", "hash_update", "hash_finalize", "write_data", "seek_data"], tiers=tiers,
                bounds="%d chunks of 1..%d stored bytes, any subset missing, payload bytes and digests symbolic (good and corrupt), every partition of the body into 1..3 non-empty callbacks, BUF_SIZE=%d" % (nch, cmax, buf), **kw)
SPEC = {
    "explanation": "plain (single-range) response body fed through zck_write_chunk_cb in three fragments with symbolic cut points; the asserted final "
                   "file bytes, marks and error signal are a function of the payload only, so they do not depend on the fragmentation",
    "outside": ["multipart/byteranges responses (multipart.c): only its memory safety / clean failure under an over-approximated regex engine is decided (C17); "
                "reassembly of multipart bodies needs glibc's regex semantics, which are not encodable here",
                "more than 3 fragments / chunks larger than the bound", "real SHA (C18)"],
    "assumptions": ["range index as zck_get_missing_range builds it (C10)", "hash back end = env/hash_acc.c", "no I/O errors (C12)"],
    "harnesses": [
        H("h05a", 2, 8, 2, 2, "two chunks, any subset requested"),
        H("h05a-3", 3, 10, 2, 2, "three chunks", tiers=("thorough",), mem_gb=16, timeout=3000),
    ],
}
