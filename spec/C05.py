from specs import ERR
_srcs = ["src/lib/dl/dl.c", "src/lib/hash/hash.c", "src/lib/io.c", "src/lib/error.c", "src/lib/zck.c", "src/lib/index/index_read.c"]
_rb = dict(ERR, **{"src/lib/hash/hash.c": ["get_digest_string"]})
_m = ["log_err.c", "files.c", "hash_acc.c", "fmt.c", "digeststr.c", "keyeq.c", "regex_stub.c", "mp_unreached.c"]
def H(name, nch, fcap, buf, cmax, what, tiers=("quick", "thorough"), **kw):
    return dict(file="C05.c", name=name, function=name[:4], repo_srcs=_srcs, remove_bodies=_rb, models=_m,
                defines=["-DNCH=%d" % nch, "-DFCAP=%d" % fcap, "-DV_BUF_SIZE=%d" % buf, "-DCMAX=%d" % cmax, "-DDOFF=2", "-DHMAX=8", "-DV_UTHASH_MODEL", "-DH_" + name[:4]],
                unwind=max(18, fcap + 2), unwindset=["dl_write_range:%d" % (nch + 2), "zero_chunk.0:%d" % (cmax // buf + 2), "dl_write_range.0:%d" % (nch + 2), "model_digest.0:66", "model_digest.1:66", "model_digest.2:66", "lib_hash_final.0:66", "lib_hash_final.1:66"],
                what=what, functions=["zck_write_chunk_cb", "dl_write_range", "dl_write", "set_chunk_valid", "zero_chunk", "validate_chunk", "zck_dl_init", "zck_dl_set_range",
                                      "hash_init", "hash_update", "hash_finalize", "write_data", "seek_data"], tiers=tiers,
                bounds="%d chunks of 1..%d stored bytes, any subset missing, payload bytes and digests symbolic (good and corrupt), every partition of the body into 1..3 non-empty callbacks, BUF_SIZE=%d" % (nch, cmax, buf), **kw)
_msrcs = _srcs + ["src/lib/dl/multipart.c", "src/lib/index/index_common.c"]
_mrb = dict(ERR, **{"src/lib/hash/hash.c": ["get_digest_string", "validate_chunk"], "src/lib/zck.c": ["zmalloc", "zrealloc"]})
_mm = ["log_err.c", "files.c", "hash_nondet.c", "digeststr.c", "keyeq.c", "regex_exact.c", "mem.c", "ringalloc.c"]
def M(name, cuts, v0, v2, what, extra=()):
    c = list(cuts) + [0] * (3 - len(cuts))
    return dict(file="C05m.c", name="h05m-" + name, function="h05m", repo_srcs=_msrcs, remove_bodies=_mrb, models=_mm,
                cbmc_extra=["--max-field-sensitivity-array-size", "256"], defines=["-DFCAP=8", "-DV_BUF_SIZE=2", "-DV_UTHASH_MODEL", "-DMEM_MAX=136", "-DMEMSET_MAX=300", "-DRA_MAX=136", "-DV_READ_LOOP", "-DV0=%d" % v0, "-DV2=%d" % v2] + ["-DCUT%d=%d" % (k + 1, x) for k, x in enumerate(c)] + list(extra),
                unwind=140, unwindset=["dl_write_range:5", "zero_chunk.0:3", "memset.0:302"], what=what, timeout=1500,
                functions=["zck_write_chunk_cb", "multipart_extract", "gen_regex", "add_boundary_to_regex", "dl_write_range", "dl_write", "set_chunk_valid", "zero_chunk", "zck_dl_free"],
                bounds="multipart response with 2 parts (boundary B, extra part header line, mixed-case field name), 3 chunks of 2 bytes (0 and 2 requested), cuts %s, verdicts %d/%d; payload symbolic" % (cuts, v0, v2))
# response layout: part1 header = 77 bytes (0..76), payload 77..78, part2 header 79..115 (37 bytes), payload 116..117, tail 118..126
_MI = [
    M("whole", [], 1, 1, "whole body in one callback"),
    M("cut-hdr1", [10], 1, 1, "cut inside the first part header"),
    M("cut-crlf", [75], 1, 1, "cut inside the CRLFCRLF that ends the first part header"),
    M("cut-pay", [78], 1, 1, "cut inside the first payload"),
    M("cut-after-pay-in-hdr2", [86], 1, 1, "fragment carries the end of part 1's data and an incomplete header of part 2"),
    M("cut-hdr2-end", [79, 114], 1, 1, "cuts at the start of the second header and just before its end"),
    M("cut-tail", [122], 1, 1, "cut inside the closing boundary"),
    M("three", [40, 80, 117], 1, 1, "three cuts"),
    M("step1", [], 1, 1, "one byte per callback", ("-DSTEP1",)),
    M("bad0", [], -1, 1, "first requested chunk fails its checksum (whole body)"),
    M("bad0-cut", [78], -1, 1, "first requested chunk fails its checksum, cut inside its payload"),
    M("bad2", [86], 1, -1, "second requested chunk fails its checksum"),
]
SPEC = {
    "explanation": "plain (single-range) response body fed through zck_write_chunk_cb in three fragments with symbolic cut points; the asserted final "
                   "file bytes, marks and error signal are a function of the payload only, so they do not depend on the fragmentation",
    "outside": ["multipart responses other than the listed concrete shapes (other boundaries - in particular ones with regex metacharacters -, more parts, parts out of order, "
                "other header spellings); the regex engine is the exact-matcher model env/regex_exact.c, not glibc",
                "more than 3 fragments / chunks larger than the bound", "real SHA (C18)"],
    "assumptions": ["range index as zck_get_missing_range builds it (C10)", "hash back end = env/hash_acc.c", "no I/O errors (C12)"],
    "harnesses": [
        H("h05a", 2, 8, 2, 2, "two chunks, any subset requested"),
        H("h05a-3", 3, 10, 2, 2, "three chunks", tiers=("thorough",), mem_gb=16, timeout=3000),
    ] + [m for m in _MI if m["name"] in ("h05m-whole", "h05m-cut-hdr1", "h05m-cut-crlf", "h05m-bad0") or __import__("os").environ.get("ALLM")],
    # the other multipart instances (cuts inside / after a payload, one byte per callback, failing second chunk) are defined above but not
    # registered: their symbolic execution did not end within 600 s (the part loop no longer resolves concretely after a mid-payload cut)
}
