from specs import ERR
_srcs = ["src/lib/hash/hash.c", "src/lib/io.c", "src/lib/error.c", "src/lib/zck.c", "src/lib/index/index_read.c"]
_rb = dict(ERR, **{"src/lib/hash/hash.c": ["get_digest_string"]})
_m = ["log_err.c", "files.c", "hash_acc.c", "fmt.c", "digeststr.c", "keyeq.c"]
def H(name, nch, fcap, buf, cmax, tiers=("quick", "thorough"), **kw):
    return dict(file="C09.c", name=name, function=name[:4], repo_srcs=_srcs, remove_bodies=_rb, models=_m,
                defines=["-DNCH=%d" % nch, "-DFCAP=%d" % fcap, "-DV_BUF_SIZE=%d" % buf, "-DCMAX=%d" % cmax, "-DDOFF=3", "-DHMAX=16", "-DV_UTHASH_MODEL", "-DH_" + name[:4]],
                unwind=66, unwindset=["validate_checksums.0:%d" % (nch + 2), "validate_checksums.1:%d" % (cmax // buf + 3), "validate_checksums.2:%d" % (nch + 2),
                                      "zck_validate_data_checksum.0:%d" % (cmax // buf + 3), "zck_validate_data_checksum.1:%d" % (nch + 2)],
                bounds="%d chunks of 0..%d stored bytes, file 0..%d bytes (truncated, exact or over-long), BUF_SIZE=%d, any digests, detached or not, flag 2 on/off" % (nch, cmax, fcap, buf),
                functions=["zck_find_valid_chunks", "zck_validate_checksums", "validate_checksums", "zck_validate_data_checksum", "validate_chunk", "validate_file",
                           "hash_init", "hash_update", "hash_finalize", "read_data", "seek_data"], tiers=tiers, **kw)
SPEC = {
    "explanation": "validate_checksums / zck_validate_data_checksum on a directly constructed opened context and an arbitrary body file of arbitrary "
                   "length; oracle = classification computed in the harness from the file bytes with the same ideal hash",
    "outside": ["more / larger chunks than the bound; the per-chunk loop body and the block loop are covered for every position of the end of file "
                "relative to chunk and block edges within the bound", "real SHA functions (C18); BUF_SIZE scaled from 32768"],
    "assumptions": ["hash back end = env/hash_acc.c (deterministic, injective on the short messages used): collision resistance stands behind 'exactly'",
                    "context in the state zck_read_header leaves (C13); stored size is 0 iff uncompressed size is 0; only the dictionary may be empty",
                    "no I/O errors here (C12 covers faults)"],
    "harnesses": [
        dict(H("h09a", 2, 9, 2, 3), what="per-chunk classification, overall verdict, side-effect freedom of the validity scan"),
        dict(H("h09b", 2, 9, 2, 3), what="whole-data digest validation: verdict, no side effects, reader state afterwards"),
        dict(H("h09a-3", 3, 12, 2, 3, tiers=("thorough",), mem_gb=16, timeout=3000), what="scan with three chunks"),
    ],
}
