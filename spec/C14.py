"""C14: random access - request sequences over chunk numbers with both getters, concrete per instance."""
from specs import ERR
import C15 as _c
import itertools
def R(name, comp, shape, fsz, reqs, what, extra=()):
    d = ["-DNCH=3", "-DFCAP=10", "-DDOFF=2", "-DZS_MAX=8", "-DZS_SIMPLE_DICT", "-DV_UTHASH_MODEL", "-DCOMP=%s" % comp, "-DFSZ=%d" % fsz, "-DCLR=0", "-DH_h14q"]
    for k, (cl, ul, v) in enumerate(shape, 1):
        d += ["-DCL%d=%d" % (k, cl), "-DUL%d=%d" % (k, ul), "-DV%d=%d" % (k, v)]
    for k in range(3):
        q, kind = reqs[k] if k < len(reqs) else (9, 0)
        d += ["-DQ%d=%d" % (k + 1, q), "-DK%d=%d" % (k + 1, kind)]
    return dict(file="C15q.c", name="h14q-" + name, function="h14q", repo_srcs=_c._qsrcs, remove_bodies=_c._qrb, models=_c._qm, defines=d + list(extra), unwind=66,
                unwindset=["comp_read.0:14"], what=what, timeout=600,
                functions=["zck_get_chunk", "zck_get_chunk_data", "zck_get_chunk_comp_data", "comp_reset", "comp_init", "comp_read", "seek_data", "read_data"],
                bounds="empty dictionary + 2 chunks (stored,declared)=%s, %s, request sequence (chunk,kind) %s with kind 0 = data, 1 = stored bytes; payload bytes symbolic" % (shape, comp, reqs))
Z, N = "ZCK_COMP_ZSTD", "ZCK_COMP_NONE"
_zs, _ns = [(2, 1, 1), (3, 2, 1)], [(1, 1, 1), (2, 2, 1)]
_seqs = [((1, 0), (2, 0), (1, 0)), ((2, 0), (1, 0), (2, 0)), ((2, 0), (2, 0), (1, 0)), ((1, 0), (1, 0), (2, 0)), ((2, 1), (1, 0), (2, 0)), ((1, 0), (2, 1), (1, 1)), ((0, 0), (2, 0), (0, 1))]
_I = []
for n, s in enumerate(_seqs):
    _I.append(R("z%d" % n, Z, _zs, 7, s, "zstd: request sequence %s" % (s,)))
    _I.append(R("n%d" % n, N, _ns, 5, s, "no compression: request sequence %s" % (s,)))
_dx = ("-DCL0=2", "-DUL0=1", "-DM1=0x26", "-DM2=0x26")
for n, s in enumerate([((0, 1), (1, 0), (2, 0)), ((2, 1), (1, 0), (2, 0)), ((1, 0), (0, 0), (2, 0)), ((2, 0), (1, 1), (1, 0))]):
    _I.append(R("zd%d" % n, Z, _zs, 9, s, "zstd with a dictionary chunk: request sequence %s" % (s,), _dx))
_nx = ("-DCL0=1", "-DUL0=1")
for n, s in enumerate([((0, 1), (1, 0), (2, 0)), ((2, 0), (1, 0), (0, 0))]):
    _I.append(R("nd%d" % n, N, _ns, 6, s, "no compression with a dictionary chunk: request sequence %s" % (s,), _nx))
SPEC = {
    "explanation": "zck_get_chunk_data / zck_get_chunk_comp_data over request sequences of length 3 (concrete per instance, incl. repeats, the last chunk first, the empty "
                   "dictionary) on a valid file with symbolic payload: each answer is the chunk's slice / stored bytes with its size, whatever was requested before",
    "outside": ["sequences longer than 3, more than two data chunks", "real libzstd"],
    "assumptions": ["valid file (frame markers as written, verdict 1)", "validate_current_chunk replaced by a recorder (real body: h15u / C09)", "context as zck_read_header leaves it"],
    "level_note": "request sequences, sizes and frame markers are concrete per harness instance, payload bytes symbolic (bounded model checking with concrete control shape; DESIGN.md section 7 explains why symbolic shapes cannot be encoded); valid files only",
    "harnesses": _I,
}
