"""C03: memory safety and termination of everything that parses file input.  The obligations are CBMC's generated
pointer / bounds / overflow / division checks and the unwinding assertions (termination within the derived bound) on the
real parser stages, each started from the state the previous stage establishes, with exact-size heap objects."""
from specs import ERR
import C13 as _c13, C07 as _c07, C06 as _c06, C10 as _c10, C15 as _c15, C14 as _c14, C09 as _c09
def _take(spec, hname, **upd):
    h = dict([x for x in spec.SPEC["harnesses"] if x["name"] == hname][0])
    fn = h["function"]
    h["defines"] = list(h.get("defines", [])) + (["-DH_" + fn] if ("-DH_" + fn) not in h.get("defines", []) else [])
    h.update(upd)
    return h
_h06 = [x for x in _c06.SPEC["harnesses"] if x["name"] == "h06r-t3"][0]
_h03h = dict(_h06, name="h03h", function="h03h", models=["log_err.c", "files.c", "hash_nondet.c", "fmt.c", "digeststr.c"],
             remove_bodies=dict(ERR, **{"src/lib/hash/hash.c": ["get_digest_string"]}),
             defines=["-DHT=3", "-DFCAP=56", "-DHMAX=8", "-DH_h03h"], unwind=66,
             what="read_header_from_file on the post-lead state with exact-size buffers, any header_length up to 2^64, any file length, any digest verdict",
             bounds="file <= 56 bytes, header_length unconstrained", functions=["read_header_from_file", "validate_header", "read_data", "zrealloc"])
SPEC = {
    "explanation": __doc__,
    "outside": ["inputs larger than the stage bounds (lead+header <= 89+60 bytes, <= 2 index entries, <= 2 optional elements)",
                "the body readers are covered through the concrete-shape instances of C02/C14/C15 and the scan harnesses of C09 (same generated checks), not for arbitrary shapes",
                "command-line tools' main() (argp, printf) - not encoded", "allocation failure"],
    "assumptions": ["stage pre-states as in C13/C06/C07 (each proved as the post-condition of the previous stage)",
                    "compint.c replaced by env/compint_spec.c in the stage harnesses, h20e proves equivalence"],
    "harnesses": [
        _take(_c13, "h20e"),
        _take(_c07, "h07c", name="h03l", what="read_lead on an arbitrary file of arbitrary length (memory safety, termination)"),
        _h03h,
        _take(_c13, "h13p", name="h03p", what="read_preface on an arbitrary header (exact-size object)"),
        _take(_c13, "h13i", name="h03i", what="read_index/index_read on an arbitrary header, any preface/index split"),
        _take(_c13, "h13i2", name="h03i2"),
        _take(_c13, "h13s", name="h03s", what="read_sig on an arbitrary header"),
        _take(_c13, "h13g", name="h03g", what="every getter / iterator on an arbitrary opened context (index never empty after the count check)"),
        _take(_c10, "h10c", name="h03r", what="zck_get_range_char incl. the empty request (was: write before the buffer)"),
        _take(_c09, "h09a", name="h03v", what="validity scan on an arbitrary body of arbitrary length (memory safety, termination)"),
        _take(_c09, "h09b", name="h03w", what="data-digest validation on an arbitrary body of arbitrary length"),
    ] + [dict(h, name="h03" + h["name"][3:]) for h in _c15.SPEC["harnesses"] if h["name"].startswith("h15q")]
      + [dict(h, name="h03" + h["name"][3:]) for h in _c14.SPEC["harnesses"]],
}
