from specs import ERR
import C08 as _c08, C09 as _c09
def _f(spec, hname, name, what):
    h = dict([x for x in spec.SPEC["harnesses"] if x["name"] == hname][0])
    h.update(name=name, defines=list(h["defines"]) + ["-DFAULTS"], what=what)
    return h
_io = dict(repo_srcs=["src/lib/io.c", "src/lib/error.c", "src/lib/zck.c"], remove_bodies=ERR, models=["log_err.c", "files.c", "fmt.c"], file="C12.c")
SPEC = {
    "explanation": "the I/O layer and its users under a fully symbolic fault schedule: every read/write/lseek may fail (EIO/ENOSPC/EINTR) or be short, any "
                   "number of times (superset of single and double faults); the solver picks the schedule.  Obligations are 'reported success => achieved'.",
    "outside": ["the writer as a whole (zck_write / zck_close before the temp-to-output copy) and the reader loop (comp_read): not encodable within memory (see C01/C02)",
                "the download callbacks under faults (C05 harness without faults only)", "the command-line tools' main loops"],
    "assumptions": ["fault model = env/files.c fault mode; lseek failures included", "hash back end = env/hash_acc.c in the copy / validation harnesses"],
    "harnesses": [
        dict(_io, name="h12w", function="h12w", defines=["-DFCAP=8", "-DNB=4", "-DH_h12w"], unwind=10, what="write_data: true only if every byte reached the descriptor in order (one retry of a short write)",
             bounds="<= 4 bytes at any position of a file <= 8 bytes, any fault schedule", functions=["write_data"]),
        dict(_io, name="h12t", function="h12t", defines=["-DFCAP=6", "-DV_BUF_SIZE=2", "-DH_h12t"], unwind=10, unwindset=["chunks_from_temp.0:12"],
             what="chunks_from_temp (last step of zck_close): true only if the complete body is in the output", bounds="temp file <= 6 bytes, BUF_SIZE=2, any fault schedule on both files", functions=["chunks_from_temp", "write_data"]),
        _f(_c08, "h08a", "h12c", "zck_copy_chunks under faults on source and target: a chunk is marked valid only if its bytes are completely and correctly in the target"),
        _f(_c09, "h09a", "h12v", "validity scan under read/seek faults: nothing is reported valid that is not; never writes"),
        _f(_c09, "h09b", "h12d", "data-digest validation under faults: verdict valid only if every byte is there and matches"),
    ],
}
