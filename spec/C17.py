from specs import ERR
_srcs = ["src/lib/dl/dl.c", "src/lib/dl/multipart.c", "src/lib/hash/hash.c", "src/lib/io.c", "src/lib/error.c", "src/lib/zck.c", "src/lib/index/index_read.c",
         "src/lib/index/index_common.c"]
_rb = dict(ERR, **{"src/lib/hash/hash.c": ["get_digest_string"]})
_m = ["log_err.c", "files.c", "hash_nondet.c", "fmt.c", "digeststr.c", "keyeq.c", "regex_model.c"]
def H(name, extra, unwindset, what, bounds, fns, **kw):
    return dict(file="C17.c", name=name, function=name, repo_srcs=_srcs, remove_bodies=_rb, models=_m,
                defines=["-DNCH=2", "-DFCAP=8", "-DV_BUF_SIZE=2", "-DDOFF=2", "-DV_UTHASH_MODEL", "-DRX_STRMAX=16", "-DFMT_MAX=16", "-DH_" + name] + list(extra),
                unwind=18, unwindset=unwindset, what=what, bounds=bounds, functions=fns, **kw)
SPEC = {
    "explanation": "the header and write callbacks on arbitrary bytes, with glibc's regex engine replaced by a model that may report any match the real engine "
                   "could (superset) and whose regcomp may fail: CBMC's memory checks, 'regexec/regfree only on compiled patterns', free() only of "
                   "library-owned buffers, and a write monitor confining every write to the extents of requested chunks",
    "outside": ["real regex matching (hence whether a given well-formed multipart body is reassembled: C05's outside)", "header lines > 8 bytes, body fragments > 10 bytes, "
                "more than two fragments", "the checksum verdict is arbitrary here (env/hash_nondet.c)"],
    "assumptions": ["regex model env/regex_model.c; snprintf contract model env/fmt.c", "range index as zck_get_missing_range builds it"],
    "harnesses": [
        H("h17a", ["-DLMAXH=8"], ["regcomp.0:66", "regexec.0:18", "strlen.0:18"], "zck_header_cb on arbitrary header lines (twice) and zck_dl_free",
          "header line 0..8 arbitrary bytes", ["zck_header_cb", "multipart_get_boundary", "create_regex", "reset_mp", "zck_dl_reset", "zck_dl_free", "clear_dl_regex"]),
        dict(H("h17g", [], ["regcomp.0:66", "regexec.0:18", "strlen.0:70"], "gen_regex with an arbitrary boundary and failing regcomp, then regexec / zck_dl_reset",
               "boundary 0..2 arbitrary non-NUL bytes", ["gen_regex", "add_boundary_to_regex", "create_regex", "zck_dl_reset", "clear_dl_regex"]),
             repo_srcs=[x for x in _srcs if x != "src/lib/dl/multipart.c"], included_srcs=["src/lib/dl/multipart.c"]),
        # h17b (write callback in multipart mode on arbitrary bodies, harness/C17.c) is not registered: 10.7 GB / out of memory at 2 fragments of <= 10 bytes
    ],
}
