from specs import ERR
_srcs = ["src/lib/error.c", "src/lib/hash/hash.c", "src/lib/io.c", "src/lib/zck.c",
         "src/lib/index/index_read.c", "src/lib/index/index_common.c", "src/lib/index/index_create.c",
         "src/lib/comp/comp.c", "src/lib/comp/zstd/zstd.c", "src/lib/comp/nocomp/nocomp.c"]
_rb = dict(ERR, **{"src/lib/hash/hash.c": ["get_digest_string"]})
_m = ["compint_spec.c", "log_err.c", "files.c", "hash_nondet.c", "fmt.c", "digeststr.c", "zstd_stub.c", "keyeq.c"]
def H(name, fn, ht, hb, ne, what, bounds, functions, tiers=("quick", "thorough"), **kw):
    ds = {0: 20, 1: 32, 2: 64, 3: 16}[ht]
    d = dict(file="C13.c", name=name, function=fn, repo_srcs=_srcs, included_srcs=["src/lib/header.c"], remove_bodies=_rb, models=_m,
             defines=["-DHT=%d" % ht, "-DHB=%d" % hb, "-DNE=%d" % ne, "-DH_%s" % fn, "-DV_UTHASH_MODEL", "-DFCAP=8"],
             unwind=max(7 + ds, hb) + 2, unwindset=["index_read.%d:%d" % (k, ne + 2) for k in range(7)] + ["h13i.2:%d" % (ne + 2), "h13i.1:66"],
             what=what, bounds=bounds, functions=functions, tiers=tiers)
    d.update(kw)
    return d
_fp = ["read_preface", "check_flags", "get_flags", "zck_get_flags", "compint_to_size", "compint_to_int", "comp_ioption", "set_comp_type", "comp_init",
       "zstd_setup", "nocomp_setup", "zstd init", "read_optional_element"]
_fi = ["read_index", "index_read", "set_chunk_hash_type", "hash_setup", "compint_to_size", "compint_to_int", "zck_get_chunk_count",
       "zck_get_first_chunk", "zck_get_chunk_number", "HASH_FIND/HASH_ADD_KEYPTR (list model)"]
_fs = ["read_sig", "compint_to_int", "zck_get_header_length", "zck_get_lead_length"]
_g = dict(file="C13g.c", name="h13g", function="h13g", repo_srcs=_srcs + ["src/lib/header.c"], remove_bodies=ERR,
          models=["compint_spec.c", "log_err.c", "files.c", "hash_nondet.c", "zstd_stub.c", "keyeq.c"], defines=["-DNCH=3", "-DV_UTHASH_MODEL", "-DFCAP=8", "-DV_FMT_EXACT_HEX"],
          unwind=6, unwindset=["fill_nondet.0:33", "get_digest_string.0:33", "hexcmp.0:33"],
          what="every metadata getter and the chunk iterator on an arbitrary opened context return the stored field; digest strings are the lower-case hex of the stored bytes",
          bounds="<= 3 chunks, 16-byte chunk digests, all field values symbolic", functions=["zck_get_*", "zck_get_chunk_*", "get_digest_string", "zck_get_data_length", "zck_get_length"])
import C20 as _c20
_eq = dict([h for h in _c20.SPEC["harnesses"] if h["name"] == "h20e"][0])
_eq.update(defines=list(_eq.get("defines", [])) + ["-DH_h20e"])
SPEC = {
    "explanation": "each header stage (preface, index, signatures) of the real parser is run on a symbolic header held in an exact-size object, from the "
                   "state the previous stage establishes, against a parser written from zchunk_format.txt with 128-bit integers: on acceptance "
                   "every stored/reported field must equal the reference and the reference must accept; getters are checked on an arbitrary "
                   "opened context.  CBMC's pointer/overflow checks on the same runs serve C03.",
    "outside": ["headers longer than the bound (header_length <= 28 quick / 44 thorough => <= 1 / 2 index entries with 16-byte digests)",
                "text printed by zck_read_header (printf); only the getter values are covered",
                "read_lead fields: C07 h07c; header checksum: C06"],
    "assumptions": ["stage pre-states: HdrInv (exact-size header object, C06 h06r) and the post-state of the previous stage",
                    "compint.c replaced by env/compint_spec.c in the stage harnesses; h20e (run here) proves the two equal on every input", "h13p explores at most 2 optional elements", "uthash macros replaced by env/uthash_model.h (list keyed by byte equality)", "zstd contexts: env/zstd_stub.c",
                    "hash back end: env/hash_nondet.c (not exercised by these stages)"],
    "harnesses": [
        _eq,
        H("h13p", "h13p", 3, 32, 1, "read_preface vs reference preface parser (flags, compression type, optional elements, index size)",
          "header_length 32 (room for a 10-byte element size), 16-byte data digest, all byte values", _fp),
        H("h13i", "h13i", 3, 40, 1, "read_index/index_read vs reference index parser (type, count, entries, starts)",
          "header_length 40, any preface/index split, with and without second digest per entry, <= 1 entry", _fi),
        H("h13i2", "h13i", 3, 60, 2, "same with room for two entries (or one entry with two digests)", "header_length 60, <= 2 entries", _fi, mem_gb=12, timeout=3000, tiers=("thorough",)),
        H("h13s", "h13s", 3, 28, 1, "read_sig: signature count, data offset, header/lead lengths", "header_length 1..28", _fs),
        H("h13p-t0", "h13p", 0, 32, 1, "read_preface with a 20-byte (SHA-1) data digest", "header_length 1..32", _fp, tiers=("thorough",)),
        H("h13p-t1", "h13p", 1, 44, 1, "read_preface with a 32-byte (SHA-256) data digest", "header_length 1..44", _fp, tiers=("thorough",)),
        _g,
    ],
}
