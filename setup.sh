#!/bin/sh
# Offline setup: nothing to fetch or build ahead of time - every check regenerates its encoding from
# /repo on each run.  Only verifies the pre-installed tools are there.
set -e
for t in cbmc goto-cc goto-instrument gcc /usr/bin/python3 /usr/bin/cvc5 kissat; do
  command -v "$t" >/dev/null || { echo "missing tool: $t"; exit 1; }
done
mkdir -p "$(dirname "$0")/evidence"
echo "setup ok: $(cbmc --version)"
