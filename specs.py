"""Harness specifications per property (what is compiled, linked, bounded and how)."""
import importlib, os, sys
HERE = os.path.dirname(os.path.abspath(__file__))
sys.path.insert(0, os.path.join(HERE, "spec"))

COMMON_ASSUME = [
    "allocation never fails (--no-malloc-may-fail); OOM behaviour is outside every claim",
    "set_error_wf/zck_log_* replaced by env/log_err.c: effect on error_state kept, message text dropped",
    "CBMC 6.11 C semantics (LP64, two's complement), goto-cc front end",
]

ERR = {"src/lib/error.c": ["set_error_wf"]}


def load(pid):
    m = importlib.import_module(pid)
    s = m.SPEC
    s.setdefault("assumptions", [])
    s["assumptions"] = COMMON_ASSUME + s["assumptions"]
    return s
