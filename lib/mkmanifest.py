#!/usr/bin/python3
"""Regenerate MANIFEST.json from spec/*.py (claimed) and NOT_APPLICABLE (everything else)."""
import json, os, sys, importlib
VERIF = os.path.dirname(os.path.dirname(os.path.abspath(__file__)))
sys.path.insert(0, VERIF)
sys.path.insert(0, os.path.join(VERIF, "spec"))
import specs

PENDING = "check not built yet in this session (see DESIGN.md section 3 for the planned harness); not claimed until it runs clean on the unchanged tree"
NOT_APPLICABLE = {   # id -> reason, for properties that are deliberately not claimed
    "C01": "Needs the real writer and the real reader in one run.  With symbolic shapes nothing finishes (as for the reader alone, DESIGN.md section 7); the concrete-shape "
           "harness harness/C01q.c (zck_init_write..zck_close then zck_init_read..zck_read, checksum comparisons recorded instead of branched on, byte-loop memcpy/realloc/read "
           "models, --max-field-sensitivity-array-size 256) got the writer half and the header parse concrete but its symbolic execution did not end within 50 min for the "
           "smallest instance (3 content bytes, one chunk).  Decided pieces: header_create seals what the reader hashes (C06 h06w), chunks_from_temp under faults (C12 h12t), "
           "compint round trip (C20), the whole read path for concrete shapes (C02).  No check is claimed.",
    "C04": "Composition of scan (C09), copy (C08), range computation (C10) and reassembly (C05) in a fetch loop with a model server; each lemma is decided separately.  The "
           "loop's control flow depends on every checksum verdict (which chunks are valid drives which ranges are requested), so it needs concrete shapes, and its multipart "
           "responses need exactly the instances that do not finish (cut after a payload); zck_dl.c's libcurl loop is FFI.",
    "C11": "Same composition as C04 plus a symbolic crash point and a restart; rests on C09 (validity is recomputed from bytes for ANY on-disk state, incl. the "
           "truncated-file defects fixed here) and C05/C08, which are decided; the crash/restart loop itself is not encoded.",
    "C19": "The property is about thread interleavings.  CBMC's thread encoding reported SUCCESS on two deliberately racy toy programs and goto-instrument --race-check "
           "aborts on function-local statics (DESIGN.md 2.6 #18), so no interleaving can be decided by the solver here; the remaining reduction (inventory of "
           "static-lifetime objects from the symbol table) is a syntactic analysis, not a solver verdict, and is therefore not offered as a check of this family.",
}

props = [json.loads(l) for l in open(os.path.join(VERIF, "properties.jsonl"))]
checks, na = [], []
for p in props:
    pid = p["id"]
    if os.path.exists(os.path.join(VERIF, "spec", pid + ".py")) and pid not in NOT_APPLICABLE:
        s = specs.load(pid)
        checks.append({
            "property_id": pid,
            "quick_cmd": "./run %s --tier quick" % pid,
            "thorough_cmd": "./run %s --tier thorough" % pid,
            "evidence_file": "evidence/%s.json" % pid,
            "replay_cmd_template": "./run %s --replay {path}" % pid,
            "engine": "cbmc",
            "level_claimed": {"category": "model_checking",
                              "text": s.get("level_text", "bounded symbolic model checking of the real translation units: every obligation is decided by the SAT/SMT back end for all symbolic inputs within the stated bounds, with unwinding assertions and a violated reachability witness per harness"),
                              "design_ref": "DESIGN.md section 3, " + pid},
            "level_note": s.get("level_note", "; ".join(s.get("assumptions", []))[:900]),
            "technique": s.get("technique", "CBMC 6.11 bounded model checking (goto-cc build of /repo sources + environment models), SAT/SMT verdict per obligation"),
        })
    else:
        na.append({"property_id": pid, "reason": NOT_APPLICABLE.get(pid, PENDING)})

m = {
    "version": 1,
    "setup_cmd": "./setup.sh",
    "hooks": {"guard": "ZCHUNK_VERIF", "enable": "no source hooks are needed: harnesses force-include env/pre.h and link environment models; nothing in /repo is guarded",
              "baseline_off_cmd": "meson test -C /repo/_build", "source_commits": [], "add_only": True},
    "engines": [{"name": "cbmc", "path": "lib/vf.py", "serves_properties": [c["property_id"] for c in checks],
                 "kind_free_text": "goto-cc compiles the current /repo sources; cbmc decides each harness (SAT: minisat/cadical/kissat, SMT: cvc5 for arithmetic kernels); counterexamples replayed on a gcc ASan/UBSan build by lib/replay.py"}],
    "checks": checks,
    "not_applicable": na,
    "notes": "exit 0 = every obligation discharged and witness reached; exit 1 + VIOLATION line = solver counterexample (replayed where a driver exists); exit 2 = inconclusive (timeout/OOM/unwinding/vacuity), never reported as success. Fix commits in /repo are listed in known_findings.txt.",
}
json.dump(m, open(os.path.join(VERIF, "MANIFEST.json"), "w"), indent=1)
print("claimed:", [c["property_id"] for c in checks])
