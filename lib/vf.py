#!/usr/bin/python3
"""Framework: bounded symbolic checking of zchunk's real translation units with CBMC.

One invocation decides one property:   vf.py <Cxx> [--tier quick|thorough] [--only H] [--keep]

Steps (DESIGN.md section 2): regenerate zck.h, compile the needed /repo sources with goto-cc
(force-including env/pre.h for scaled constants), drop bodies that get a model, link with
env models + harness, run cbmc per harness in parallel, classify every obligation, triage
failures against known_findings.txt, write evidence/<Cxx>.json, print KNOWN-FINDING / VIOLATION
lines, exit 0 / 1 / 2 (2 = inconclusive, never success).
"""
import sys, os, json, subprocess, time, hashlib, shutil, re, resource, threading, argparse
from concurrent.futures import ThreadPoolExecutor

VERIF = os.path.dirname(os.path.dirname(os.path.abspath(__file__)))
REPO = os.environ.get("VERIF_REPO", "/repo")
sys.path.insert(0, VERIF)

BASE_FLAGS = ["-std=gnu11", "-D_FILE_OFFSET_BITS=64", "-DZCHUNK_ZSTD", "-DZCHUNK_VERIF_HARNESS"]
CBMC_FLAGS = ["--unwinding-assertions", "--pointer-overflow-check", "--signed-overflow-check",
              "--undefined-shift-check", "--div-by-zero-check", "--bounds-check", "--pointer-check",
              "--drop-unused-functions", "--no-malloc-may-fail", "--object-bits", "10"]
SOLVERS = {
    "default": [],
    "cadical": ["--sat-solver", "cadical"],
    "kissat": ["--external-sat-solver", "kissat"],
    "cvc5": ["--cvc5"],
    "cvc5plain": ["--cvc5"],      # cvc5 without the bv-as-int shim (bitwise kernels: SHA)
    "z3": ["--z3"],
}
TOTAL_MEM_GB = 52
_print_lock = threading.Lock()


def log(*a):
    with _print_lock:
        print(*a, flush=True)


def sh(cmd, **kw):
    return subprocess.run(cmd, stdout=subprocess.PIPE, stderr=subprocess.STDOUT, text=True, **kw)


def sha1_file(p):
    h = hashlib.sha1()
    with open(p, "rb") as f:
        h.update(f.read())
    return h.hexdigest()


class Build:
    """Per-run scratch build directory under /verif/build (never /tmp)."""

    def __init__(self, pid_tag):
        self.dir = os.path.join(VERIF, "build", "%s-%d" % (pid_tag, os.getpid()))
        shutil.rmtree(self.dir, ignore_errors=True)
        os.makedirs(os.path.join(self.dir, "inc"))
        self.lock = threading.Lock()
        self.objs = {}
        self.gen_header()

    def gen_header(self):
        src = open(os.path.join(REPO, "include/zck.h.in")).read()
        ver = "0"
        m = re.search(r"version\s*:\s*'([^']+)'", open(os.path.join(REPO, "meson.build")).read())
        if m:
            ver = m.group(1)
        open(os.path.join(self.dir, "inc", "zck.h"), "w").write(src.replace("@version@", ver))

    def inc_flags(self):
        return ["-I", os.path.join(VERIF, "env", "inc"), "-I", os.path.join(self.dir, "inc"), "-I", os.path.join(REPO, "src/lib"),
                "-I", os.path.join(REPO, "include"), "-I", os.path.join(REPO, "src"),
                "-I", os.path.join(VERIF, "env"), "-I", os.path.join(VERIF, "harness")]

    def compile(self, src, defines=(), pre=True, remove_bodies=(), extra=()):
        """goto-cc -c one source; cached by (src, defines, remove_bodies)."""
        key = (src, tuple(defines), bool(pre), tuple(remove_bodies), tuple(extra))
        with self.lock:
            ent = self.objs.get(key)
            if ent is None:
                ent = self.objs[key] = {"lock": threading.Lock(), "out": None, "err": None}
        # one builder per key; everybody else waits until the object (including body removal) is complete
        with ent["lock"]:
            if ent["err"]:
                raise RuntimeError(ent["err"])
            if ent["out"]:
                return ent["out"]
            try:
                ent["out"] = self._compile(key, src, defines, pre, remove_bodies, extra)
            except RuntimeError as e:
                ent["err"] = str(e)
                raise
            return ent["out"]

    def _compile(self, key, src, defines, pre, remove_bodies, extra):
        tag = hashlib.sha1(repr(key).encode()).hexdigest()[:12]
        out = os.path.join(self.dir, "%s-%s.o" % (os.path.basename(src).replace(".", "_"), tag))
        tmp = out + ".tmp.o"
        cmd = ["goto-cc", "-c", src, "-o", tmp] + BASE_FLAGS + self.inc_flags() + list(defines) + list(extra)
        if pre:
            cmd += ["-include", os.path.join(VERIF, "env", "pre.h")]
        r = sh(cmd)
        if r.returncode != 0:
            raise RuntimeError("goto-cc failed for %s:\n%s" % (src, r.stdout[-4000:]))
        for fn in remove_bodies:
            r = sh(["goto-instrument", "--remove-function-body", fn, tmp, tmp])
            if r.returncode != 0:
                raise RuntimeError("remove-function-body %s failed on %s:\n%s" % (fn, src, r.stdout[-2000:]))
        os.rename(tmp, out)
        return out

    def link(self, objs, out):
        r = sh(["goto-cc", "-o", out] + objs)
        if r.returncode != 0:
            raise RuntimeError("goto-cc link failed:\n%s" % r.stdout[-4000:])
        return out

    def cleanup(self):
        shutil.rmtree(self.dir, ignore_errors=True)
        try:
            os.rmdir(os.path.join(VERIF, "build"))
        except OSError:
            pass


def _limit(mem_gb):
    def f():
        b = int(mem_gb * (1 << 30))
        resource.setrlimit(resource.RLIMIT_AS, (b, b))
        os.setsid()
    return f


class MemSched:
    def __init__(self, total):
        self.total = total
        self.used = 0
        self.cv = threading.Condition()

    def acquire(self, n):
        with self.cv:
            while self.used + n > self.total and self.used > 0:
                self.cv.wait()
            self.used += n

    def release(self, n):
        with self.cv:
            self.used -= n
            self.cv.notify_all()


def parse_cbmc_json(txt):
    """Return (results list, messages list, overall). Tolerates truncated output."""
    try:
        data = json.loads(txt)
    except Exception:
        return None, [], None
    results, msgs, overall = [], [], None
    for item in data:
        if not isinstance(item, dict):
            continue
        if "result" in item:
            results = item["result"]
        if "messageText" in item:
            msgs.append(item["messageText"])
        if "cProverStatus" in item:
            overall = item["cProverStatus"]
    return results, msgs, overall


def run_cbmc(binary, h, tier, sched, workdir):
    """Run one harness; returns a record."""
    t = h.get(tier, {}) if isinstance(h.get(tier), dict) else {}
    unwind = t.get("unwind", h.get("unwind", 1))
    unwindset = t.get("unwindset", h.get("unwindset", []))
    solver = t.get("solver", h.get("solver", "default"))
    timeout = t.get("timeout", h.get("timeout", 1500))
    mem = t.get("mem_gb", h.get("mem_gb", 6))
    extra = list(h.get("cbmc_extra", [])) + list(t.get("cbmc_extra", []))
    cmd = ["cbmc", binary, "--function", h["function"], "--unwind", str(unwind)]
    if unwindset:
        cmd += ["--unwindset", ",".join(unwindset)]
    cmd += CBMC_FLAGS + SOLVERS[solver] + extra + ["--json-ui"]
    env = dict(os.environ)
    if solver == "cvc5":
        env["PATH"] = os.path.join(VERIF, "env", "shim") + ":" + env["PATH"]
    sched.acquire(mem)
    t0 = time.time()
    rec = {"harness": h["name"], "function": h["function"], "solver": solver, "unwind": unwind,
           "unwindset": unwindset, "timeout_s": timeout, "mem_gb": mem}
    try:
        outp = os.path.join(workdir, h["name"] + ".cbmc.json")
        with open(outp, "w") as fo:
            p = subprocess.Popen(["/usr/bin/time", "-f", "RSSKB=%M"] + cmd, stdout=fo, stderr=subprocess.PIPE,
                                 text=True, preexec_fn=_limit(mem), env=env)
            try:
                _, err = p.communicate(timeout=timeout)
                rec["status"] = "done"
            except subprocess.TimeoutExpired:
                try:
                    os.killpg(p.pid, 9)
                except Exception:
                    p.kill()
                _, err = p.communicate()
                rec["status"] = "timeout"
        rec["rc"] = p.returncode
        m = re.search(r"RSSKB=(\d+)", err or "")
        rec["rss_mb"] = int(m.group(1)) // 1024 if m else None
        rec["stderr_tail"] = (err or "")[-600:]
        rec["wall_s"] = round(time.time() - t0, 2)
        rec["cmd"] = " ".join(cmd)
        txt = open(outp).read()
        results, msgs, overall = parse_cbmc_json(txt)
        rec["overall"] = overall
        rec["results"] = results if results is not None else []
        if rec["status"] == "done" and (results is None or overall is None or (not results and overall != "success")):
            rec["status"] = "error"
            rec["error_tail"] = txt[-1500:]
        for mm in msgs:
            m2 = re.search(r"(\d+) variables, (\d+) clauses", mm)
            if m2:
                rec["sat_vars"] = int(m2.group(1))
                rec["sat_clauses"] = int(m2.group(2))
            m3 = re.search(r"Runtime Solver: ([\d.]+)s", mm) or re.search(r"Runtime decision procedure: ([\d.]+)s", mm)
            if m3:
                rec["solver_s"] = rec.get("solver_s", 0) + float(m3.group(1))
            if "(error" in mm:
                rec["status"] = "error"
                rec["error_tail"] = mm[-800:]
    finally:
        sched.release(mem)
    return rec


def get_trace(binary, h, tier, prop_name, workdir, timeout=900):
    """Re-run cbmc for one failed property with --trace; return list of nondet input assignments."""
    t = h.get(tier, {}) if isinstance(h.get(tier), dict) else {}
    unwind = t.get("unwind", h.get("unwind", 1))
    unwindset = t.get("unwindset", h.get("unwindset", []))
    solver = t.get("solver", h.get("solver", "default"))
    cmd = ["cbmc", binary, "--function", h["function"], "--unwind", str(unwind)]
    if unwindset:
        cmd += ["--unwindset", ",".join(unwindset)]
    cmd += CBMC_FLAGS + SOLVERS[solver] + list(h.get("cbmc_extra", [])) + list(t.get("cbmc_extra", [])) + ["--json-ui", "--trace", "--property", prop_name]
    env = dict(os.environ)
    if solver == "cvc5":
        env["PATH"] = os.path.join(VERIF, "env", "shim") + ":" + env["PATH"]
    try:
        r = subprocess.run(cmd, stdout=subprocess.PIPE, stderr=subprocess.DEVNULL, text=True, timeout=timeout,
                           preexec_fn=_limit(h.get("mem_gb", 6) + 4), env=env)
    except subprocess.TimeoutExpired:
        return None
    results, _, _ = parse_cbmc_json(r.stdout)
    if not results:
        return None
    for res in results:
        if res.get("property") == prop_name and "trace" in res:
            vals = []
            for st in res["trace"]:
                if st.get("stepType") == "assignment" and st.get("assignmentType") == "variable":
                    lhs = st.get("lhs", "")
                    v = st.get("value", {})
                    if st.get("hidden"):
                        continue
                    if lhs.startswith("__CPROVER") or "return_value" in lhs and "nondet" not in lhs:
                        continue
                    fn = st.get("sourceLocation", {}).get("function", "")
                    if not (lhs.startswith("IN_") or fn.startswith("h") or fn.startswith("H") or "harness" in fn or "nondet" in lhs
                            or fn.startswith("mk_") or fn.startswith("env_")):
                        continue
                    val = v.get("data", v.get("name"))
                    if val is None:
                        continue
                    vals.append({"lhs": lhs, "value": val, "fn": fn,
                                 "line": st.get("sourceLocation", {}).get("line")})
            return vals
    return None


def load_known():
    """known_findings.txt: lines 'finding: property=Cxx harness=H obligation=LABEL id=ID :: text' and
    'fixed: property=Cxx <commit> <what failed>'. Never written at run time."""
    out = []
    p = os.path.join(VERIF, "known_findings.txt")
    if not os.path.exists(p):
        return out
    for ln in open(p):
        ln = ln.strip()
        if not ln.startswith("finding:"):
            continue
        d = {}
        head, _, text = ln[len("finding:"):].partition("::")
        for tok in head.split():
            if "=" in tok:
                k, v = tok.split("=", 1)
                d[k] = v
        d["text"] = text.strip()
        out.append(d)
    return out


def classify(rec):
    """Split cbmc property results into witness / obligations / generated checks / unwinding."""
    wit, obl, gen, unw = [], [], [], []
    for r in rec.get("results", []):
        name = r.get("property", "")
        desc = r.get("description", "")
        st = r.get("status", "")
        e = {"id": name, "desc": desc, "status": st,
             "loc": "%s:%s" % (os.path.basename(r.get("sourceLocation", {}).get("file", "")),
                               r.get("sourceLocation", {}).get("line", ""))}
        if desc.startswith("WITNESS/"):
            wit.append(e)
        elif ".unwind." in name or desc.startswith("unwinding assertion"):
            unw.append(e)
        elif re.match(r"C\d\d/", desc):
            obl.append(e)
        else:
            gen.append(e)
    return wit, obl, gen, unw


def main():
    ap = argparse.ArgumentParser()
    ap.add_argument("prop")
    ap.add_argument("--tier", default=os.environ.get("VERIF_TIER", "quick"))
    ap.add_argument("--only", default=None, help="comma-separated harness names")
    ap.add_argument("--keep", action="store_true")
    ap.add_argument("--replay", default=None)
    ap.add_argument("--jobs", type=int, default=16)
    ap.add_argument("--build-only", action="store_true", help="build the goto binaries, print the cbmc commands, keep the build dir")
    a = ap.parse_args()
    pid = a.prop
    tier = a.tier if a.tier in ("quick", "thorough") else "quick"
    seed = int(os.environ.get("VERIF_SEED", "0") or 0)
    import specs
    spec = specs.load(pid)
    if a.replay:
        import replay
        sys.exit(replay.replay_file(a.replay))
    t_start = time.time()
    harnesses = [h for h in spec["harnesses"] if tier in h.get("tiers", ("quick", "thorough"))]
    if a.only:
        sel = set(a.only.split(","))
        harnesses = [h for h in harnesses if h["name"] in sel]
    known = [k for k in load_known() if k.get("property") == pid]
    b = Build(pid)
    inconclusive, violations, known_hits = [], [], []
    recs = []
    try:
        # self tests (concrete validation of models), optional
        for st in spec.get("selftests", []):
            ok, msg = st(b)
            if not ok:
                inconclusive.append("selftest failed: %s" % msg)
        # build
        bins = {}
        src_sha = {}

        def build_one(h):
            t = h.get(tier, {}) if isinstance(h.get(tier), dict) else {}
            defines = list(h.get("defines", [])) + list(t.get("defines", []))
            objs = []
            for s in h.get("repo_srcs", []):
                rb = h.get("remove_bodies", {}).get(s, [])
                p = os.path.join(REPO, s)
                src_sha[s] = sha1_file(p)
                objs.append(b.compile(p, defines=defines, remove_bodies=rb))
            for s in h.get("models", []):
                objs.append(b.compile(os.path.join(VERIF, "env", s), defines=defines))
            objs.append(b.compile(os.path.join(VERIF, "harness", h["file"]), defines=defines + ["-DH_" + h["name"].replace("-", "_")]))
            for s in h.get("included_srcs", []):
                src_sha[s] = sha1_file(os.path.join(REPO, s))
            out = os.path.join(b.dir, h["name"] + ".gb")
            b.link(objs, out)
            return out

        with ThreadPoolExecutor(max_workers=a.jobs) as ex:
            futs = {h["name"]: ex.submit(build_one, h) for h in harnesses}
            for h in harnesses:
                try:
                    bins[h["name"]] = futs[h["name"]].result()
                except Exception as e:
                    inconclusive.append("build failed for %s: %s" % (h["name"], str(e)[-1500:]))
        if a.build_only:
            a.keep = True
            for h in harnesses:
                if h["name"] in bins:
                    t = h.get(tier, {}) if isinstance(h.get(tier), dict) else {}
                    us = t.get("unwindset", h.get("unwindset", []))
                    print("cbmc %s --function %s --unwind %s %s %s %s" % (bins[h["name"]], h["function"], t.get("unwind", h.get("unwind", 1)),
                          ("--unwindset " + ",".join(us)) if us else "", " ".join(CBMC_FLAGS), " ".join(SOLVERS[t.get("solver", h.get("solver", "default"))])))
            for m in inconclusive:
                print("INCONCLUSIVE:", m)
            sys.exit(0)
        sched = MemSched(TOTAL_MEM_GB)
        with ThreadPoolExecutor(max_workers=a.jobs) as ex:
            futs = [(h, ex.submit(run_cbmc, bins[h["name"]], h, tier, sched, b.dir)) for h in harnesses if h["name"] in bins]
            for h, f in futs:
                rec = f.result()
                rec["spec"] = h
                recs.append(rec)
        # triage
        for rec in recs:
            h = rec["spec"]
            hname = h["name"]
            if rec["status"] != "done":
                inconclusive.append("%s: %s (%.0fs, rss %s MB) %s" % (hname, rec["status"], rec.get("wall_s", 0),
                                                                   rec.get("rss_mb"), rec.get("error_tail", rec.get("stderr_tail", ""))[-300:]))
                continue
            wit, obl, gen, unw = classify(rec)
            rec["n_wit"], rec["n_obl"], rec["n_gen"], rec["n_unw"] = len(wit), len(obl), len(gen), len(unw)
            if not wit:
                inconclusive.append("%s: no reachability witness in harness" % hname)
            for w in wit:
                if w["status"] != "FAILURE":
                    inconclusive.append("%s: witness %s not reached (%s) -> vacuous" % (hname, w["desc"], w["status"]))
            for u in unw:
                if u["status"] != "SUCCESS":
                    inconclusive.append("%s: unwinding assertion %s failed -> bound too small" % (hname, u["id"]))
            nobody = [e for e in gen if e["status"] == "FAILURE" and ".no-body." in e["id"]]
            for e in nobody:
                inconclusive.append("%s: %s (harness does not link the callee)" % (hname, e["desc"]))
            gen = [e for e in gen if e not in nobody]
            envb = [e for e in gen if e["status"] == "FAILURE" and e["desc"].startswith("ENVBOUND/")]
            for e in envb:
                inconclusive.append("%s: %s exceeded (environment model capacity, not a verdict)" % (hname, e["desc"]))
            gen = [e for e in gen if e not in envb]
            failed = [e for e in obl + gen if e["status"] == "FAILURE"]
            undecided = [e for e in obl + gen if e["status"] not in ("SUCCESS", "FAILURE")]
            rec["failed"] = failed
            rec["n_undecided"] = len(undecided)
            # CBMC 6 reports properties downstream of a failed check as UNKNOWN; they are explained by
            # the failure.  UNKNOWN without any failure means nothing was decided -> inconclusive.
            if undecided and not failed:
                inconclusive.append("%s: %d properties UNKNOWN without a failure (first %s)" % (hname, len(undecided), undecided[0]["id"]))
            for e in failed:
                k = None
                for kk in known:
                    if kk.get("harness") == hname and (kk.get("obligation") == e["desc"] or kk.get("obligation") == e["id"]):
                        k = kk
                        break
                if k:
                    known_hits.append((k, e, hname))
                else:
                    violations.append((rec, e))
        # traces + replay for violations
        vio_out = []
        os.makedirs(os.path.join(VERIF, "violations"), exist_ok=True)
        seen = set()
        for rec, e in violations:
            h = rec["spec"]
            keyv = (h["name"], e["id"])
            if keyv in seen:
                continue
            seen.add(keyv)
            tr = get_trace(bins[h["name"]], h, tier, e["id"], b.dir)
            ins = {}
            for st in (tr or []):
                if st["lhs"].startswith("IN_"):
                    mm = re.match(r"^-?\d+", str(st["value"]))
                    ins[st["lhs"].replace("l]", "]")] = int(mm.group(0)) if mm else st["value"]
            case = {"property": pid, "harness": h["name"], "function": h["function"], "obligation": e["desc"], "in": ins,
                    "cbmc_property": e["id"], "location": e["loc"], "tier": tier, "inputs": tr,
                    "repo_sources": {s: src_sha.get(s) for s in list(h.get("repo_srcs", [])) + list(h.get("included_srcs", []))}}
            rp = None
            if h.get("replay"):
                try:
                    import replay
                    rp = replay.run(h["replay"], case, b)
                except Exception as ex2:
                    rp = {"reproduced": None, "note": "replay driver error: %s" % ex2}
            case["replay"] = rp
            path = os.path.join(VERIF, "violations", "%s-%s-%s.json" % (pid, h["name"], re.sub(r"[^A-Za-z0-9_.-]", "_", e["id"])))
            json.dump(case, open(path, "w"), indent=1)
            if rp is not None and rp.get("reproduced") is False and not h.get("report_unreproduced"):
                inconclusive.append("%s: counterexample for %s did not reproduce on the real build (%s)" % (h["name"], e["desc"], rp.get("note", "")))
                continue
            vio_out.append((path, h["name"], e))
    finally:
        if not a.keep:
            b.cleanup()

    # evidence
    wall = round(time.time() - t_start, 2)
    n_queries = sum(len(r.get("results", [])) for r in recs)
    obligations = sum(r.get("n_obl", 0) + r.get("n_gen", 0) for r in recs)
    discharged = sum(1 for r in recs for x in r.get("results", []) if x.get("status") == "SUCCESS"
                     and not x.get("description", "").startswith("WITNESS/"))
    labelled = sorted(set(x.get("description") for r in recs for x in r.get("results", [])
                          if re.match(r"C\d\d/", x.get("description", ""))))
    samples = []
    for r in recs:
        h = r["spec"]
        samples.append({"harness": h["name"], "function": h["function"], "what": h.get("what", ""),
                        "bounds": h.get("bounds", ""), "labelled_obligations": sorted(set(
                            x.get("description") for x in r.get("results", []) if re.match(r"C\d\d/", x.get("description", ""))))[:40]})
    ev = {
        "property_id": pid, "tier": tier, "seed": seed, "level": "model_checking",
        "coverage": {
            "evaluations": n_queries,
            "distinct_nontrivial": len(labelled) + sum(r.get("n_gen", 0) for r in recs),
            "rule": "one evaluation = one CBMC property (labelled obligation, generated memory-safety/overflow check, "
                    "unwinding assertion or reachability witness) decided by the solver over all symbolic inputs within the bounds; "
                    "distinct_nontrivial counts distinct labelled obligations plus generated checks that survive --drop-unused-functions "
                    "(i.e. lie in code reachable from the harness), each in a harness whose reachability witness was violated",
            "samples": samples,
            "obligations": obligations, "discharged": discharged,
            "harnesses": [{k: v for k, v in r.items() if k not in ("results", "spec", "stderr_tail", "failed")} |
                          {"functions_encoded": r["spec"].get("functions", []), "models": r["spec"].get("models", []),
                           "repo_srcs": r["spec"].get("repo_srcs", []) + r["spec"].get("included_srcs", []),
                           "defines": r["spec"].get("defines", []), "bounds": r["spec"].get("bounds", ""),
                           "failed": r.get("failed", [])} for r in recs],
            "repo_source_sha1": src_sha if 'src_sha' in dir() else {},
            "solver_time_s": round(sum(r.get("solver_s", 0) for r in recs), 2),
            "explanation": spec.get("explanation", ""),
            "outside_claim": spec.get("outside", []),
            "known_findings_matched": [k.get("id") for k, _, _ in known_hits],
            "inconclusive": inconclusive,
            "exhaustive": False,
        },
        "assumptions": spec.get("assumptions", []),
        "wall_s": wall,
        "violations": len(vio_out),
    }
    os.makedirs(os.path.join(VERIF, "evidence"), exist_ok=True)
    json.dump(ev, open(os.path.join(VERIF, "evidence", pid + ".json"), "w"), indent=1)

    done_k = set()
    for k, e, hname in known_hits:
        if k.get("id") in done_k:
            continue
        done_k.add(k.get("id"))
        log("KNOWN-FINDING: property=%s %s [%s/%s]" % (pid, k.get("text"), hname, e["desc"]))
    for r in recs:
        log("  %-22s %-8s %6.1fs rss=%sMB vars=%s obligations=%s failed=%d" % (
            r["harness"], r["status"], r.get("wall_s", 0), r.get("rss_mb"), r.get("sat_vars"),
            r.get("n_obl", 0) + r.get("n_gen", 0), len(r.get("failed", []))))
    for path, hname, e in vio_out:
        log("VIOLATION property=%s replay=%s   [%s: %s @%s]" % (pid, path, hname, e["desc"], e["loc"]))
    for m in inconclusive:
        log("INCONCLUSIVE: %s" % m)
    if vio_out:
        sys.exit(1)
    if inconclusive:
        sys.exit(2)
    log("OK property=%s tier=%s harnesses=%d obligations=%d wall=%.1fs" % (pid, tier, len(recs), obligations, wall))
    sys.exit(0)


if __name__ == "__main__":
    main()
