"""Replay of solver counterexamples against an ordinary gcc build of /repo (ASan+UBSan).

run(driver, case, build) -> {"reproduced": True|False|None, "note": str}
The case carries "in": {IN_name: int, "IN_arr[3]": int, ...} extracted from the CBMC trace.
"""
import os, subprocess, json, sys, threading

VERIF = os.path.dirname(os.path.dirname(os.path.abspath(__file__)))
REPO = os.environ.get("VERIF_REPO", "/repo")
LIB_SRCS = ["compint.c", "header.c", "zck.c", "io.c", "error.c", "log.c", "hash/hash.c", "hash/bundled/libsha.c",
            "hash/bundled/sha1/sha1.c", "hash/bundled/sha2/sha2.c", "index/index_read.c", "index/index_create.c",
            "index/index_common.c", "comp/comp.c", "comp/nocomp/nocomp.c", "comp/zstd/zstd.c", "buzhash/buzhash.c",
            "dl/dl.c", "dl/range.c", "dl/multipart.c"]
SAN = ["-g", "-O1", "-fsanitize=address,undefined", "-fno-sanitize-recover=undefined", "-fno-omit-frame-pointer"]
_lock = threading.Lock()


def build_real(b):
    """Static, sanitized build of libzck from the current /repo tree (bundled SHA, zstd)."""
    with _lock:
        d = os.path.join(b.dir, "real")
        lib = os.path.join(d, "libzck_san.a")
        if os.path.exists(lib):
            return lib
        os.makedirs(d, exist_ok=True)
        objs = []
        for s in LIB_SRCS:
            o = os.path.join(d, s.replace("/", "_") + ".o")
            cmd = ["gcc", "-c", os.path.join(REPO, "src/lib", s), "-o", o, "-std=gnu11", "-D_FILE_OFFSET_BITS=64",
                   "-DZCHUNK_ZSTD", "-I", os.path.join(b.dir, "inc"), "-I", os.path.join(REPO, "src/lib"),
                   "-I", os.path.join(REPO, "include"), "-w"] + SAN
            r = subprocess.run(cmd, stdout=subprocess.PIPE, stderr=subprocess.STDOUT, text=True)
            if r.returncode != 0:
                raise RuntimeError("gcc failed: " + r.stdout[-1500:])
            objs.append(o)
        subprocess.run(["ar", "rcs", lib] + objs, check=True)
        return lib


def build_driver(b, name, extra=()):
    lib = build_real(b)
    exe = os.path.join(b.dir, "real", "drv_" + name)
    cmd = ["gcc", os.path.join(VERIF, "replay", name + ".c"), "-o", exe, "-std=gnu11", "-D_FILE_OFFSET_BITS=64",
           "-DZCHUNK_ZSTD", "-I", os.path.join(b.dir, "inc"), "-I", os.path.join(REPO, "src/lib"),
           "-I", os.path.join(REPO, "include"), "-w"] + SAN + list(extra) + [lib, "-lzstd"]
    r = subprocess.run(cmd, stdout=subprocess.PIPE, stderr=subprocess.STDOUT, text=True)
    if r.returncode != 0:
        raise RuntimeError("driver build failed: " + r.stdout[-1500:])
    return exe


def arr(ins, name, n, default=0):
    return [int(ins.get("%s[%d]" % (name, i), default)) for i in range(n)]


def exec_driver(exe, args, timeout=60, stdin=None):
    env = dict(os.environ, ASAN_OPTIONS="detect_leaks=0:abort_on_error=0", UBSAN_OPTIONS="print_stacktrace=1")
    try:
        r = subprocess.run([exe] + [str(a) for a in args], stdout=subprocess.PIPE, stderr=subprocess.PIPE, text=True,
                           timeout=timeout, env=env, input=stdin)
    except subprocess.TimeoutExpired:
        return None, "", "timeout"
    return r.returncode, r.stdout, r.stderr


# ---------------------------------------------------------------------------------------------
def ref_compint(bs):
    acc = 0
    for k in range(10):
        if k >= len(bs):
            return None
        acc |= (bs[k] & 127) << (7 * k)
        if bs[k] & 128:
            return acc, k + 1
    return None


def drv_compint(case, b):
    ins = case["in"]
    n, cur, mode = int(ins.get("IN_n", 0)), int(ins.get("IN_cur", 0)), int(ins.get("IN_mode", 0))
    buf = arr(ins, "IN_buf", n)
    exe = build_driver(b, "compint")
    rc, out, err = exec_driver(exe, [mode, n, cur] + buf)
    if rc is None:
        return {"reproduced": True, "note": "real build hangs"}
    if "AddressSanitizer" in err or "runtime error" in err:
        return {"reproduced": True, "note": "sanitizer: " + err.strip().splitlines()[0][:200], "args": [mode, n, cur] + buf}
    try:
        ok, val, ln = [int(x) for x in out.split()[:3]]
    except Exception:
        return {"reproduced": None, "note": "driver output unparsable: %r %r" % (out[:100], err[:200])}
    ref = ref_compint(buf[cur:])
    lim = (1 << 64) if mode == 0 else (1 << 31)
    exp_ok = 1 if (ref is not None and ref[0] < lim) else 0
    bad = (ok != exp_ok) or (ok and (val != ref[0] or ln != cur + ref[1]))
    return {"reproduced": bool(bad), "note": "real: ok=%d val=%d len=%d; reference: %s" % (ok, val, ln, ref),
            "args": [mode, n, cur] + buf}


def drv_range(case, b):
    """h10c counterexample (BUF_SIZE scaled to `scaled`): re-scaled to the stock 32768-byte buffer by prepending filler
    items of exactly 8 characters so that the counterexample's items meet the end of the first buffer at the same distance."""
    ins = case["in"]
    nr = int(ins.get("IN_nr", 0))
    items = [(int(ins.get("IN_rs[%d]" % i, 0)), int(ins.get("IN_re[%d]" % i, 0))) for i in range(nr)]
    scaled = int(case.get("scaled_buf", 8))
    filler = [(100, 101)] * ((32768 - scaled) // 8) if nr > 0 else []
    pad = (32768 - scaled) % 8
    allitems = filler + items
    exe = build_driver(b, "range")
    rc, out, err = exec_driver(exe, [], stdin="%d\n" % len(allitems) + "".join("%d %d\n" % it for it in allitems))
    ref = ",".join("%d-%d" % it for it in allitems)
    if rc is None:
        return {"reproduced": True, "note": "real build hangs"}
    if "AddressSanitizer" in err or "runtime error" in err:
        return {"reproduced": True, "note": "sanitizer: " + [l for l in err.strip().splitlines() if "ERROR" in l or "runtime error" in l][0][:200]}
    got = out.strip()
    if got == "NULL":
        return {"reproduced": nr == 0 or True, "note": "real zck_get_range_char returned NULL for %d ranges" % len(allitems)}
    bad = got != "S:" + ref
    return {"reproduced": bool(bad), "note": "real output length %d, reference length %d (%d filler items + counterexample %s)" % (
        len(got) - 2, len(ref), len(filler), items)}


DRIVERS = {"compint": drv_compint, "range": drv_range}


def run(name, case, b):
    return DRIVERS[name](case, b)


def replay_file(path):
    """./run Cxx --replay file : re-execute a stored violation case against the current /repo build."""
    sys.path.insert(0, os.path.join(VERIF, "lib"))
    import vf, specs
    case = json.load(open(path))
    spec = specs.load(case["property"])
    h = [x for x in spec["harnesses"] if x["name"] == case["harness"]][0]
    if not h.get("replay"):
        print("no concrete replay driver for harness %s; inputs: %s" % (h["name"], json.dumps(case.get("in"))))
        return 2
    b = vf.Build(case["property"] + "-replay")
    try:
        r = run(h["replay"], case, b)
    finally:
        b.cleanup()
    print(json.dumps(r))
    return 1 if r.get("reproduced") else 0
