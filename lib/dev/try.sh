#!/bin/bash
# dev helper: link objects and run cbmc with a memory cap, printing size/time statistics.
# usage: [FN=h] [UNW=n] [TMO=s] [EXTRA=..] try.sh out.gb objs...
ulimit -v ${MEMKB:-16000000}
out=$1; shift
goto-cc -o $out "$@" || exit 1
/usr/bin/time -f "RSS=%MKB T=%es" timeout ${TMO:-300} cbmc $out --function ${FN:-h07c} --unwind ${UNW:-68} --unwinding-assertions --pointer-overflow-check --signed-overflow-check --undefined-shift-check --div-by-zero-check --bounds-check --pointer-check --drop-unused-functions --no-malloc-may-fail --verbosity 8 $EXTRA 2>&1 | grep -v "^Unwinding\|^Not unwinding" | grep -i "variables\|clauses\|runtime\|size of\|VERIF\|error\|RSS\|FAIL" | head -${HEAD:-30}
