#!/usr/bin/python3
"""Dev helper for seeded changes (never part of a registered check).

  seed.py verify <Cxx> <a|b>          confirm a sub-agent's change in its scratch worktree /tmp/seed_<Cxx>:
                                      demo passes on the unchanged tree, patch applies, suite passes, demo fails;
                                      on success store it as /verif/seeded/<Cxx><v>/ (patch.diff, demo, RUN.txt, NOTES.md, meta.json)
  seed.py detect <seed-id> [Cyy ...]  apply seeded/<seed-id>/patch.diff to /repo, run the quick checks, undo; record in meta.json
"""
import sys, os, subprocess, json, shutil, time, re

VERIF = os.path.dirname(os.path.dirname(os.path.dirname(os.path.abspath(__file__))))


def sh(cmd, cwd=None, timeout=1800):
    try:
        r = subprocess.run(cmd, shell=True, cwd=cwd, stdout=subprocess.PIPE, stderr=subprocess.STDOUT, text=True, timeout=timeout,
                           executable="/bin/bash")
        return r.returncode, r.stdout
    except subprocess.TimeoutExpired as e:
        return 124, (e.stdout or "") + "\nTIMEOUT"


def verify(pid, v):
    wt = "/tmp/seed_%s" % pid
    out = os.path.join(wt, "OUT", v)
    head = subprocess.check_output(["git", "-C", "/repo", "rev-parse", "HEAD"], text=True).strip()
    log = {}
    sh("git reset -q --hard; git checkout -q --detach %s; git reset -q --hard; rm -rf _build" % head, cwd=wt)
    rc, o = sh("meson setup _build >/dev/null 2>&1 && ninja -C _build >/dev/null 2>&1 && echo built", cwd=wt)
    if "built" not in o:
        print("base build failed", o[-500:]); return 1
    run = open(os.path.join(out, "RUN.txt")).read().strip().splitlines()
    run = [l for l in run if l.strip() and not l.strip().startswith("#")][0]
    rc0, o0 = sh(run, cwd=wt, timeout=900)
    log["demo_on_unchanged"] = {"rc": rc0, "tail": o0[-400:]}
    rc, o = sh("git apply %s/patch.diff || git apply -3 %s/patch.diff" % (out, out), cwd=wt)
    if rc != 0:
        print("patch does not apply to current HEAD:", o[-600:]); log["apply"] = o[-600:]
        sh("git checkout -q -- .", cwd=wt)
        print(json.dumps(log, indent=1)); return 1
    _, diff = sh("git diff HEAD", cwd=wt)
    rc, o = sh("ninja -C _build 2>&1 | tail -3 && meson test -C _build 2>&1 | grep -E '^(Ok|Fail|Expected Fail|Timeout):'", cwd=wt)
    log["suite_with_change"] = o.strip()
    suite_ok = re.search(r"Ok:\s+36", o) and re.search(r"Fail:\s+0", o)
    rc1, o1 = sh(run, cwd=wt, timeout=900)
    log["demo_with_change"] = {"rc": rc1, "tail": o1[-400:]}
    sh("git reset -q --hard; rm -rf _build", cwd=wt)
    ok = (rc0 == 0 and 'FAIL' not in o0[-600:]) and (rc1 != 0 or 'FAIL' in o1[-2000:]) and suite_ok
    print(json.dumps(log, indent=1))
    print("CONFIRMED" if ok else "NOT CONFIRMED")
    if ok:
        sid = "%s%s" % (pid, v)
        d = os.path.join(VERIF, "seeded", sid)
        shutil.rmtree(d, ignore_errors=True)
        os.makedirs(d)
        open(os.path.join(d, "patch.diff"), "w").write(diff)
        for f in os.listdir(out):
            if f != "patch.diff" and os.path.isfile(os.path.join(out, f)) and os.path.getsize(os.path.join(out, f)) < 200000 \
                    and not os.access(os.path.join(out, f), os.X_OK) or f.endswith(".sh"):
                shutil.copy(os.path.join(out, f), os.path.join(d, f))
        meta = {"seed": sid, "breaks_property": pid, "base_commit": head,
                "needs_to_manifest": "see NOTES.md", "confirmed": log,
                "what_i_ran": "scratch worktree at /repo HEAD: build, RUN.txt (exit 0), git apply patch.diff, ninja, meson test (36 ok / 1 expected fail), RUN.txt (exit != 0)",
                "detected_by": {}}
        json.dump(meta, open(os.path.join(d, "meta.json"), "w"), indent=1)
    return 0 if ok else 1


def detect(sid, props):
    """Runs the quick checks against a scratch worktree of /repo HEAD with the patch applied (VERIF_REPO=...), so that
    /repo itself stays clean and other work can go on in parallel; equivalent to git -C /repo apply / run / checkout."""
    d = os.path.join(VERIF, "seeded", sid)
    meta = json.load(open(os.path.join(d, "meta.json")))
    if not props:
        props = [meta["breaks_property"]]
    wt = "/tmp/mutwt_%s" % sid
    sh("git -C /repo worktree remove --force %s; git -C /repo worktree add -q --detach %s HEAD" % (wt, wt))
    rc, o = sh("git -C %s apply %s/patch.diff" % (wt, d))
    if rc != 0:
        print("apply failed", o); sh("git -C /repo worktree remove --force %s" % wt); return 2
    vdir = "/tmp/mutverif_%s" % sid
    try:
        # private copy of /verif so that evidence/, violations/ and build/ of the real one are not disturbed
        sh("rm -rf %s; rsync -a --exclude seeded --exclude build --exclude violations --exclude .git %s/ %s/" % (vdir, VERIF, vdir))
        for p in props:
            t0 = time.time()
            rc, o = sh("VERIF_REPO=%s ./run %s --tier quick" % (wt, p), cwd=vdir, timeout=3600)
            lines = [l for l in o.splitlines() if l.startswith(("VIOLATION", "INCONCLUSIVE", "OK ", "KNOWN"))]
            meta["detected_by"][p] = {"exit": rc, "wall_s": round(time.time() - t0), "lines": [l[:300] for l in lines[:12]]}
            print(p, "exit", rc, "\n  " + "\n  ".join(l[:260] for l in lines[:12]))
    finally:
        sh("git -C /repo worktree remove --force %s; rm -rf %s" % (wt, vdir))
    json.dump(meta, open(os.path.join(d, "meta.json"), "w"), indent=1)
    return 0


if __name__ == "__main__":
    if sys.argv[1] == "verify":
        sys.exit(verify(sys.argv[2], sys.argv[3]))
    sys.exit(detect(sys.argv[2], sys.argv[3:]))
