#!/bin/bash
# dev helper: compile one harness/model with the framework's flags.  usage: cc.sh src.c out.o [defines...]
src=$1; out=$2; shift 2
B=$(ls -d /verif/build/C*-*/ | head -1)
goto-cc -c $src -o $out -std=gnu11 -D_FILE_OFFSET_BITS=64 -DZCHUNK_ZSTD -DZCHUNK_VERIF_HARNESS -I /verif/env/inc -I $B/inc -I /repo/src/lib -I /repo/include -I /repo/src -I /verif/env -I /verif/harness -include /verif/env/pre.h "$@"
