/* C01 - round trip through the REAL writer and the REAL reader, concrete shape per instance (see harness/C15q.c for why).
 * Real code: zck.c (zck_create, zck_init_write, get_tmp_fd, zck_set_ioption, zck_close, zck_init_read, zck_free), comp.c
 * (zck_write, zck_end_chunk, comp_init, comp_write, zck_read, comp_read ...), zstd.c / nocomp.c, index_create.c, header.c
 * (header_create, write_header, read_lead, read_header_from_file, read_preface, read_index, read_sig), index_read.c, io.c
 * (write_data, chunks_from_temp, read_data), hash.c plumbing.  libzstd = codec-A stub; hash = env/hash_acc.c (records the
 * message, deterministic digest).  The three checksum comparisons (header, chunk, whole data) are replaced by recorders that
 * compute the same comparison, store its (symbolic) outcome and answer "equal", so that control flow stays concrete; the
 * harness then demands that every recorded comparison was in fact equal - the solver decides that for all contents.
 * Shape: COMP, L content length, S1..S4 write sizes, E1..E4 end-chunk after write k, RS read size, TFD temp descriptor, UNC. */
#include "common.h"
#include <string.h>
#include <unistd.h>
#ifndef UNC
#define UNC 0
#endif
static const size_t SS[4] = {S1, S2, S3, S4};
static const int EE[4] = {E1, E2, E3, E4};
unsigned char IN_d[8];
int v_eq[12]; int v_n; int v_hdr, v_chunks, v_file;

static int rec_cmp(zckCtx *z, zckHash *h, const char *stored, int ds, int zero_expected) {
    char *d = hash_finalize(z, h);
    if(d == NULL) return 0;
    int eq = 1;
    for(int i = 0; i < 64; i++) if(i < ds && (zero_expected ? 0 : d[i]) != stored[i]) eq = 0;
    free(d);
    if(v_n < 12) v_eq[v_n++] = eq;
    return 1;
}
int validate_header(zckCtx *zck) {
    if(zck == NULL || zck->error_state > 0) return 0;
    if(!rec_cmp(zck, &zck->check_full_hash, zck->header_digest, zck->hash_type.digest_size, 0)) return 0;
    v_hdr++;
    if(!hash_init(zck, &zck->check_full_hash, &zck->hash_type)) return 0;
    return 1;
}
int validate_current_chunk(zckCtx *zck) {
    if(zck == NULL || zck->error_state > 0) return 0;
    zckChunk *c = zck->comp.data_idx;
    __CPROVER_assert(c != NULL, "C01/chunk-end-validation-has-a-current-chunk");
    if(c == NULL) return 0;
    if(!rec_cmp(zck, &zck->check_chunk_hash, c->digest, c->digest_size, c->comp_length == 0)) return 0;
    v_chunks++;
    c->valid = 1;
    return 1;
}
int validate_file(zckCtx *zck, zck_log_type t) {
    (void)t;
    if(zck == NULL || zck->error_state > 0) return 0;
    if(zck->has_uncompressed_source) return 1;
    if(!rec_cmp(zck, &zck->check_full_hash, zck->full_hash_digest, zck->hash_type.digest_size, 0)) return 0;
    v_file++;
    return 1;
}

void h01q(void) {
    unsigned char D[8];
    for(int i = 0; i < 8; i++) { D[i] = nondet_uchar(); IN_d[i] = D[i]; }
    zs_mode = 0;
    vf_tmp_fd_fixed = TFD;
    vf_attach(0, 3, 0);                         /* output file: descriptor 3, empty */
    /* ---------------- write ---------------- */
    zckCtx *w = zck_create();
    ASSUME(w != NULL);
    bool ok = zck_init_write(w, 3);
    OBLIGE(ok, "C01/writer-initialises");
    ASSUME(ok);
    ok = zck_set_ioption(w, ZCK_COMP_TYPE, COMP) && zck_set_ioption(w, ZCK_MANUAL_CHUNK, 1);
    if(UNC) ok = ok && zck_set_ioption(w, ZCK_UNCOMP_HEADER, 1);
    OBLIGE(ok, "C01/writer-options-accepted");
    ASSUME(ok);
    size_t off = 0;
    for(int k = 0; k < 4; k++) {
        if(SS[k] > 0) {
            ssize_t n = zck_write(w, (const char *)D + off, SS[k]);
            OBLIGE(n == (ssize_t)SS[k], "C01/write-call-accepts-all-bytes");
            off += SS[k];
        }
        if(EE[k]) { ssize_t e = zck_end_chunk(w); OBLIGE(e >= 0, "C01/end-chunk-succeeds"); }
    }
    OBLIGE(off == L, "C01/harness-shape-consistent");
    bool cl = zck_close(w);
    OBLIGE(cl, "C01/writer-close-succeeds");
    ASSUME(cl);
    OBLIGE(!hm_overflow, "C01/model-capacity");
    zck_free(&w);
    /* ---------------- read back ---------------- */
    OBLIGE(lseek(3, 0, SEEK_SET) == 0, "C01/output-descriptor-still-open");
    zckCtx *r = zck_create();
    ASSUME(r != NULL);
    bool op = zck_init_read(r, 3);
    OBLIGE(op, "C01/written-file-opens");
    ASSUME(op);
    OBLIGE(v_hdr == 1, "C01/header-checksum-was-checked");
    unsigned char got[8]; size_t pos = 0; int eof = 0, err = 0;
    char buf[8];
    for(int q = 0; q < (int)(L / RS) + 2; q++) if(!eof && !err) {
        ssize_t n = zck_read(r, buf, RS);
        if(n < 0) { err = 1; }
        else if(n == 0) eof = 1;
        else { for(size_t k = 0; k < RS; k++) if(k < (size_t)n && pos + k < 8) got[pos + k] = (unsigned char)buf[k]; pos += (size_t)n; }
    }
    OBLIGE(!err, "C01/read-back-reports-no-error");
    OBLIGE(eof && pos == L, "C01/read-back-returns-exactly-as-many-bytes-as-were-written");
    for(size_t i = 0; i < 8; i++) if(i < L && i < pos) OBLIGE(got[i] == D[i], "C01/read-back-bytes-equal-the-written-content");
    bool rc = zck_close(r);
    OBLIGE(rc, "C01/reader-close-succeeds");
    for(int i = 0; i < 12; i++) if(i < v_n) OBLIGE(v_eq[i], "C01/every-checksum-comparison-header-chunk-data-is-equal");
    OBLIGE(UNC || v_file >= 1, "C01/whole-data-checksum-was-checked");
    OBLIGE(!hm_overflow, "C01/model-capacity");
    WITNESS("h01q-end");
}
