/* LeadInv (DESIGN.md 2.4): the context state a successful zck_read_lead leaves, built directly from a symbolic file
 * through the reference lead parser.  h07c (C07) proves that the real read_lead produces exactly these fields. */
#ifndef H_LEADSTATE_H
#define H_LEADSTATE_H
#include "ref_lead.h"
typedef struct { zckCtx *z; ref_lead_t r; size_t fsz; } lead_state_t;
static inline lead_state_t mk_after_lead_b(int k, int fd, int ht, size_t hlmax);

/* k = file slot (0 or 1), fd = descriptor; the file's bytes must already be havocked by the caller.
 * ht >= 0 fixes the header hash type (keeps the digest size concrete). */
static inline lead_state_t mk_after_lead(int k, int fd, int ht) {
    return mk_after_lead_b(k, fd, ht, SIZE_MAX);
}
/* hlmax: upper bound assumed for the header_length field */
static inline lead_state_t mk_after_lead_b(int k, int fd, int ht, size_t hlmax) {
    lead_state_t s;
    size_t fsz = nondet_size_t();
    ASSUME(fsz <= FCAP);
    vf_attach(k, fd, fsz);
    unsigned char fb[FCAP];
    for(size_t i = 0; i < FCAP; i++) fb[i] = k == 0 ? vf_data0[i] : vf_data1[i];
    s.r = ref_lead(fb, fsz);
    ASSUME(s.r.ok);
    if(ht >= 0) ASSUME(s.r.htype == ht);
    ASSUME(s.r.hlen <= (u128)hlmax);
    s.fsz = fsz;
    zckCtx *z = mk_ctx(ZCK_MODE_READ);
    z->fd = fd;
    z->header_only = s.r.detached;
    z->hash_type.type = s.r.htype;
    z->hash_type.digest_size = s.r.ds;
    z->header_length = (size_t)s.r.hlen;
    z->hdr_digest_loc = s.r.digest_loc;
    z->lead_size = s.r.lead_size;
    z->header_size = s.r.lead_size > MINLEAD ? s.r.lead_size : MINLEAD;
    z->header = zmalloc(z->header_size);   /* through the (possibly modelled) allocator of the code under test */
    ASSUME(z->header != NULL);
    for(size_t i = 0; i < FCAP; i++) if(i < z->header_size) z->header[i] = (char)fb[i];
    z->lead_string = z->header;
    z->header_digest = malloc((size_t)s.r.ds);
    ASSUME(z->header_digest != NULL);
    for(int i = 0; i < 64; i++) if(i < s.r.ds) z->header_digest[i] = (char)fb[s.r.digest_loc + i];
    vf_pos[k] = (long)z->header_size;
    s.z = z;
    return s;
}
#endif
