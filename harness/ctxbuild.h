/* Direct construction of an opened read context (state after a successful zck_read_header) with NCH chunks.
 * This is the OpenInv state of DESIGN.md 2.4; the C13 harnesses prove that the real parsers produce states of
 * this shape.  Everything not fixed here is symbolic. */
#ifndef H_CTXBUILD_H
#define H_CTXBUILD_H
#include "common.h"
#ifndef NCH
#define NCH 3
#endif
#ifndef DSZ
#define DSZ 16              /* chunk digest size: ZCK_HASH_SHA512_128 unless a harness says otherwise */
#endif
#ifndef CHT
#define CHT ZCK_HASH_SHA512_128
#endif

typedef struct {
    zckCtx *z;
    zckChunk *c[NCH];
    size_t hdr;             /* lead_size + header_length */
} tgt_t;

/* n chunks (n <= NCH), linked in file order, start = running sum, number = position, digests symbolic.
 * comp_length / length / valid are left for the caller to constrain (they are set to nondet here). */
static inline tgt_t mk_target(size_t n, size_t lead, size_t hlen) {
    tgt_t t;
    t.z = mk_ctx(ZCK_MODE_READ);
    t.z->lead_size = lead;
    t.z->header_length = hlen;
    t.z->data_offset = lead + hlen;
    t.hdr = lead + hlen;
    t.z->hash_type.type = ZCK_HASH_SHA256; t.z->hash_type.digest_size = 32;
    t.z->chunk_hash_type.type = CHT; t.z->chunk_hash_type.digest_size = DSZ;
    t.z->index.hash_type = CHT;
    t.z->index.digest_size = DSZ;
    t.z->index.count = n;
    zckChunk *prev = NULL;
    size_t loc = 0;
    for(size_t i = 0; i < NCH; i++) {
        t.c[i] = NULL;
        if(i >= n) continue;
        zckChunk *c = calloc(1, sizeof(zckChunk));
        ASSUME(c != NULL);
        c->digest = malloc(DSZ);
        ASSUME(c->digest != NULL);
        fill_nondet(c->digest, DSZ);
        c->digest_size = DSZ;
        c->number = i;
        c->zck = t.z;
        c->comp_length = nondet_size_t();
        c->length = nondet_size_t();
        c->valid = nondet_int();
        c->start = loc;
        t.c[i] = c;
        if(prev) prev->next = c; else t.z->index.first = c;
        prev = c;
    }
    return t;
}
/* re-establish start = running sum after the caller constrained comp_length */
static inline void fix_starts(tgt_t *t, size_t n) {
    size_t loc = 0;
    for(size_t i = 0; i < NCH; i++) if(i < n) { t->c[i]->start = loc; loc += t->c[i]->comp_length; }
    t->z->index.length = loc;
}
#endif
