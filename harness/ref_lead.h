/* Reference lead parser written from zchunk_format.txt (independent of header.c).  Works on a plain byte array. */
#ifndef H_REF_LEAD_H
#define H_REF_LEAD_H
#include "common.h"
typedef struct {
    int ok;            /* lead is well formed and complete in the file */
    int detached;
    int htype, ds;
    u128 hlen;         /* header size field (exact) */
    int hlen_fits;     /* < 2^64 */
    size_t digest_loc, lead_size;
} ref_lead_t;

/* fb: file bytes, fsz: file size.  The implementation's first read is MINLEAD = 5 + 2*10 bytes, so a file
 * shorter than that cannot be a zchunk file (smallest legal file: 23-byte lead + >= 21-byte header). */
#define MINLEAD 25
static inline ref_lead_t ref_lead(const unsigned char *fb, size_t fsz) {
    ref_lead_t r = {0};
    if(fsz < MINLEAD) return r;
    if(fb[0] != 0 || fb[1] != 'Z' || fb[4] != '1') return r;
    if(fb[2] == 'C' && fb[3] == 'K') r.detached = 0;
    else if(fb[2] == 'H' && fb[3] == 'R') r.detached = 1;
    else return r;
    u128 t = 0; size_t l1 = 0, l2 = 0;
    if(!ref_ci(fb + 5, MINLEAD - 5, &t, &l1)) return r;
    if(t > 3) return r;
    r.htype = (int)t; r.ds = ref_dsize(t);
    if(!ref_ci(fb + 5 + l1, MINLEAD - 5 - l1, &r.hlen, &l2)) return r;
    r.hlen_fits = (r.hlen >> 64) == 0;
    if(!r.hlen_fits) return r;
    r.digest_loc = 5 + l1 + l2;
    r.lead_size = r.digest_loc + (size_t)r.ds;
    if(r.hlen + (u128)r.lead_size > (u128)SIZE_MAX) return r;   /* total header length not representable */
    if(r.lead_size > fsz) return r;
    r.ok = 1;
    return r;
}
#endif
