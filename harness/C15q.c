/* C15 / C02 / C14 - the whole read path with a CONCRETE SHAPE per harness instance.
 * Why concrete: a symbolic checksum verdict (or size) forks comp_read's state; CBMC merges the forks again at every function
 * return, after which data_idx, data_loc, dc_data, ... are if-then-else terms, every later loop iteration is explored with all
 * branches open and each carries hash finalisations: no instance finished (16 GB / 15 min).  With sizes, file length, request
 * sizes AND the per-chunk checksum verdicts fixed per instance the control flow resolves by constant propagation; the data
 * bytes stay symbolic.  The verdict itself (stored bytes vs index digest) is decided for all inputs by h15u / C09 / C05.
 *
 * Real code: comp.c (zck_read, comp_read, comp_end_dchunk, zck_get_chunk_data, zck_get_chunk_comp_data, comp_reset, comp_init,
 * comp_add_to_dc, ...), zstd.c / nocomp.c, zck.c (zck_close, import_dict), hash.c (validate_file, hash plumbing), io.c.
 * validate_current_chunk is replaced by a recorder returning the instance's verdict for the k-th chunk end.
 * Shape macros: NCH (1 empty dictionary + NCH-1 data chunks), CLk stored size, ULk declared size, Vk verdict (1 / -1),
 * FSZ file length, COMP, and for h15q the request sizes Wr, for h14q the requests Qr (chunk number) / Kr (0 data, 1 stored). */
#include "ctxbuild.h"
#include <string.h>
#ifndef DOFF
#define DOFF 2
#endif
#ifndef CL2
#define CL2 1
#define UL2 0
#define V2 1
#endif
#ifndef M1
#define M1 0x25
#endif
#ifndef M2
#define M2 0x25
#endif
#ifndef COMP
#define COMP ZCK_COMP_ZSTD
#endif
#define SKIP (COMP == ZCK_COMP_ZSTD ? 1 : 0)
#ifndef CL0
#define CL0 0
#define UL0 0
#endif
#ifndef M0
#define M0 0x25
#endif
#define DICT (CL0 > 0)
static const size_t CL[3] = {CL0, CL1, CL2}, UL[3] = {UL0, UL1, UL2};
#ifndef V0
#define V0 1
#endif
static const int VV[3] = {V0, V1, V2};
unsigned char IN_file[FCAP];

int v_calls; int v_for_chunk[4];
int validate_current_chunk(zckCtx *zck) {
    if(zck == NULL || zck->error_state > 0) return 0;
    zckChunk *c = zck->comp.data_idx;
    __CPROVER_assert(c != NULL, "C15/chunk-end-validation-has-a-current-chunk");
    if(c == NULL) return 0;
    /* consume the running chunk digest as the real function does */
    char *d = hash_finalize(zck, &zck->check_chunk_hash);
    if(d == NULL) { c->valid = 0; return 0; }      /* as validate_chunk: no running digest is an error */
    free(d);
    int v = VV[c->number < 3 ? c->number : 0];
    if(v_calls < 4) v_for_chunk[v_calls] = (int)c->number;
    v_calls++;
    c->valid = v;
    return v;
}

/* whole-data checksum: recorder with an arbitrary (symbolic) outcome - it is only consulted at the very end of a run */
int vf_calls, vf_last;
int validate_file(zckCtx *zck, zck_log_type t) {
    (void)t;
    if(zck == NULL || zck->error_state > 0) return 0;
    if(zck->has_uncompressed_source) return 1;
    char *d = hash_finalize(zck, &zck->check_full_hash);
    if(d == NULL) return 0;
    free(d);
    vf_calls++;
    vf_last = nondet_bool() ? 1 : -1;
    return vf_last;
}
typedef struct { tgt_t t; size_t ooff[3], olen[3]; int ok[3]; unsigned char out[8]; size_t outlen; int allok; } rq_t;
static rq_t setup(void) {
    rq_t s;
    vf_havoc(0);
    vf_attach(0, 3, FSZ);
    for(size_t i = 0; i < FCAP; i++) IN_file[i] = vf_data0[i];
    s.t = mk_target(NCH, DOFF - 1, 1);
    zckCtx *z = s.t.z;
    z->fd = 3;
    z->full_hash_digest = malloc(32); ASSUME(z->full_hash_digest != NULL);
    fill_nondet(z->full_hash_digest, 32);
    for(size_t i = 0; i < NCH; i++) { s.t.c[i]->comp_length = CL[i]; s.t.c[i]->length = UL[i]; s.t.c[i]->valid = 0; }
    fix_starts(&s.t, NCH);
    /* the codec's frame marker (first stored byte of a zstd chunk) is concrete per instance as well: it decides whether decoding
     * fails, i.e. control flow; the payload bytes stay symbolic */
    if(COMP == ZCK_COMP_ZSTD) {
        if(CL0 > 0 && DOFF < FSZ) vf_data0[DOFF] = M0;
        if(CL1 > 0 && DOFF + s.t.c[1]->start < FSZ) vf_data0[DOFF + s.t.c[1]->start] = M1;
        if(NCH > 2 && CL2 > 0 && DOFF + s.t.c[2]->start < FSZ) vf_data0[DOFF + s.t.c[2]->start] = M2;
    }
    for(size_t i = 0; i < FCAP; i++) IN_file[i] = vf_data0[i];
    s.outlen = 0; s.allok = 1;
    for(size_t i = 0; i < NCH; i++) {
        size_t off = DOFF + s.t.c[i]->start;
        int present = off + CL[i] <= FSZ;
        unsigned char want_marker = (i > 0 && DICT) ? 0x26 : 0x25;     /* data chunks are coded with the dictionary when there is one */
        int dec = (CL[i] == 0) ? (UL[i] == 0) : (COMP == ZCK_COMP_ZSTD ? (UL[i] + 1 == CL[i] && vf_data0[off < FCAP ? off : 0] == want_marker) : 1);
        size_t dl = CL[i] == 0 ? 0 : CL[i] - SKIP;
        s.ok[i] = (i == 0 && !DICT) ? 1 : (present && VV[i] == 1 && dec);
        if(i == 0) dl = 0;                               /* the dictionary is not part of the content */
        s.ooff[i] = s.outlen; s.olen[i] = dl;
        for(size_t k = 0; k < dl; k++) s.out[s.outlen++] = vf_data0[off + SKIP + k < FCAP ? off + SKIP + k : 0];
        if(!s.ok[i]) s.allok = 0;
    }
    zs_mode = 0;
    bool a = comp_ioption(z, ZCK_COMP_TYPE, COMP), b = comp_init(z), c = hash_init(z, &z->check_full_hash, &z->hash_type);
    ASSUME(a && b && c);
    vf_pos[0] = DOFF;
    return s;
}

#ifdef H_h15q
static const size_t WR[4] = {W1, W2, W3, W4};
void h15q(void) {
    rq_t s = setup();
    zckCtx *z = s.t.z;
    size_t pos = 0; int failed = 0, eof = 0;
    char *buf = malloc(4);
    ASSUME(buf != NULL);
    for(int r = 0; r < 4; r++) if(WR[r] > 0) {
        if(failed && CLR) zck_clear_error(z);          /* instance option: the caller clears a non-fatal error and reads on */
        ssize_t n = zck_read(z, buf, WR[r]);
        if(n < 0) { failed = 1; continue; }
        OBLIGE((size_t)n <= WR[r], "C15/read-returns-no-more-than-requested");
        for(size_t k = 0; k < 4; k++) if(k < (size_t)n) {
            size_t p = pos + k;
            OBLIGE(p < s.outlen, "C02/no-byte-beyond-the-reference-content");
            int owner_ok = 0;
            for(size_t i = 1; i < NCH; i++) if(p >= s.ooff[i] && p < s.ooff[i] + s.olen[i]) owner_ok = s.ok[i];
#ifndef NOC15       /* streaming codecs (no compression) release bytes before the chunk end by design; C15 is about unit-decoded chunks */
            OBLIGE(owner_ok, "C15/released-byte-belongs-to-a-chunk-whose-stored-bytes-match-its-checksum");
#endif
            if(p < s.outlen) OBLIGE((unsigned char)buf[k] == s.out[p], "C02/released-byte-equals-the-reference-decoding");
        }
        pos += (size_t)n;
        if(n == 0) eof = 1;
    }
#ifndef NOC15
    if(!s.allok) OBLIGE(failed || pos <= s.ooff[1] + (s.ok[1] ? s.olen[1] : 0), "C15/a-read-that-needs-the-bad-chunk-reports-an-error");
#endif
    if(!failed && eof) {
        bool cl = zck_close(z);
        if(cl) {
            OBLIGE(vf_calls >= 1 && vf_last == 1, "C02/close-succeeds-only-if-the-whole-data-checksum-was-compared-and-matched");
            OBLIGE(s.allok, "C02/successful-read-to-end-and-close-only-for-a-file-the-reference-decoder-accepts");
            OBLIGE(pos == s.outlen, "C02/successful-read-to-end-returns-the-whole-content");
        }
    }
#ifndef ZS_DDICT_FAIL
    if(s.allok && FSZ >= DOFF + CL0 + CL1 + (NCH > 2 ? CL2 : 0)) OBLIGE(!failed, "C02/intact-file-reads-without-error");
#else
    OBLIGE(failed, "C02/rejected-dictionary-is-an-error");
#endif
    zck_free(&s.t.z);
    OBLIGE(s.t.z == NULL, "C03/context-freed-after-any-outcome");
    WITNESS("h15q-end");
}
#endif

#ifdef H_h14q
static const size_t QQ[3] = {Q1, Q2, Q3};
static const int KK[3] = {K1, K2, K3};
void h14q(void) {
    rq_t s = setup();
    zckCtx *z = s.t.z;
    ASSUME(s.allok);                   /* valid file: stored marker bytes as the codec wrote them */
    char *buf = malloc(4);
    ASSUME(buf != NULL);
    for(int q = 0; q < 3; q++) if(QQ[q] < NCH) {
        zckChunk *c = zck_get_chunk(z, QQ[q]);
        OBLIGE(c == s.t.c[QQ[q]], "C14/chunk-lookup");
        size_t i = QQ[q];
        if(KK[q]) {
            ssize_t n = zck_get_chunk_comp_data(c, buf, CL[i]);
            OBLIGE(n == (ssize_t)CL[i], "C14/stored-data-request-returns-the-stored-size");
            for(size_t k = 0; k < 4; k++) if(n > 0 && k < (size_t)n)
                OBLIGE((unsigned char)buf[k] == IN_file[DOFF + s.t.c[i]->start + k], "C14/stored-data-request-returns-the-stored-bytes");
        } else {
            ssize_t n = zck_get_chunk_data(c, buf, UL[i]);
            /* the dictionary is not part of the content stream, but a request for chunk 0 returns its decoded bytes */
            size_t elen = (i == 0) ? (CL0 > 0 ? CL0 - SKIP : 0) : s.olen[i];
            OBLIGE(n == (ssize_t)elen, "C14/data-request-returns-the-declared-size-regardless-of-history");
            for(size_t k = 0; k < 4; k++) if(n > 0 && k < (size_t)n)
                OBLIGE((unsigned char)buf[k] == (i == 0 ? IN_file[DOFF + SKIP + k] : s.out[s.ooff[i] + k]), "C14/data-request-returns-the-chunk-slice-regardless-of-history");
        }
    }
    WITNESS("h14q-end");
}
#endif
