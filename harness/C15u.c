/* C15 unit step: comp_end_dchunk (static in comp.c, reached by including the source) from the state comp_read has when the
 * last stored byte of a unit-decoded chunk was read: comp.data holds the chunk's stored bytes, the running chunk digest has
 * absorbed exactly them.  Codec = env/zstd_stub.c codec-A; hash = env/hash_acc.c. */
#include "ctxbuild.h"
#include "comp/comp.c"
#ifndef CMAX
#define CMAX 3
#endif
size_t IN_n, IN_ulen; unsigned char IN_b[CMAX], IN_dig[DSZ];
void h15u(void) {
    tgt_t t = mk_target(2, 1, 1);
    zckCtx *z = t.z;
    zckChunk *c = t.c[1];
    size_t n = nondet_size_t();
    ASSUME(n >= 1 && n <= CMAX);
    c->comp_length = n; t.c[0]->comp_length = 0; t.c[0]->length = 0;
    ASSUME(c->length <= CMAX + 1);
    fix_starts(&t, 2);
    IN_n = n; IN_ulen = c->length;
    for(int k = 0; k < DSZ; k++) IN_dig[k] = (unsigned char)c->digest[k];
    zs_mode = 0;
    bool a = comp_ioption(z, ZCK_COMP_TYPE, ZCK_COMP_ZSTD), b = comp_init(z);
    ASSUME(a && b);
    unsigned char sb[CMAX];
    z->comp.data = malloc(n);
    ASSUME(z->comp.data != NULL);
    for(size_t k = 0; k < CMAX; k++) { sb[k] = nondet_uchar(); IN_b[k] = sb[k]; if(k < n) z->comp.data[k] = (char)sb[k]; }
    z->comp.data_size = n; z->comp.data_loc = n; z->comp.data_idx = c;
    bool h1 = hash_init(z, &z->check_chunk_hash, &z->chunk_hash_type), h2 = hash_update(z, &z->check_chunk_hash, z->comp.data, n);
    ASSUME(h1 && h2);
    unsigned char d[64];
    model_digest(CHT, sb, n, d);
    int match = 1;
    for(int k = 0; k < DSZ; k++) if(d[k] != (unsigned char)c->digest[k]) match = 0;
    ssize_t r = comp_end_dchunk(z, true, c->length);
    size_t buffered = z->comp.dc_data_size - z->comp.dc_data_loc;
    if(!match) {
        OBLIGE(r < 0, "C15/chunk-end-reports-failure-when-stored-bytes-do-not-match-the-checksum");
        OBLIGE(buffered == 0, "C15/no-decoded-byte-of-an-unverified-chunk-is-left-in-the-output-buffer");
        WITNESS("h15u-mismatch");
    } else if(r >= 0 && z->error_state == 0) {
        /* accepted: buffer holds exactly the decoding (C02: no padding, no truncation) */
        OBLIGE(sb[0] == 0x25 && c->length == n - 1, "C02/chunk-accepted-only-if-it-decodes-to-its-declared-size");
        OBLIGE(buffered == n - 1, "C02/buffered-output-is-exactly-the-decoded-chunk");
        for(size_t k = 0; k + 1 < CMAX; k++) if(k < buffered && k + 1 < n)
            OBLIGE((unsigned char)z->comp.dc_data[z->comp.dc_data_loc + k] == sb[k + 1], "C02/buffered-bytes-equal-the-decoding");
        OBLIGE(z->comp.data_idx == NULL && z->comp.data_loc == 0, "C15/reader-advances-to-the-next-chunk");
        WITNESS("h15u-accept");
    }
}
