/* C17 - arbitrary server responses.  Real code: src/lib/dl/multipart.c (multipart_get_boundary, multipart_extract,
 * gen_regex, add_boundary_to_regex, create_regex, reset_mp), dl.c (zck_header_cb, zck_write_chunk_cb, dl_write_range, ...,
 * zck_dl_reset, zck_dl_free).  glibc regex = env/regex_model.c (any match the engine could report, regcomp may fail). */
#include "ctxbuild.h"
#include <string.h>
#ifndef LMAXH
#define LMAXH 8
#endif
#ifndef DOFF
#define DOFF 2
#endif
size_t IN_len; unsigned char IN_line[16], IN_body[32]; size_t IN_l1, IN_l2;

static zckDL *mk_dl(tgt_t *T, int with_range) {
    vf_havoc(0);
    vf_attach(0, 3, FCAP);
    *T = mk_target(NCH, DOFF - 1, 1);
    T->z->fd = 3;
    for(size_t i = 0; i < NCH; i++) { ASSUME(T->c[i]->comp_length >= 1 && T->c[i]->comp_length <= 2); ASSUME(T->c[i]->valid == 0 || T->c[i]->valid == 1); }
    fix_starts(T, NCH);
    zckDL *dl = zck_dl_init(T->z);
    ASSUME(dl != NULL && dl->mp != NULL);
    if(with_range) {
        zckRange *r = calloc(1, sizeof(zckRange)); ASSUME(r != NULL);
        zckChunk *prev = NULL; size_t P = 0, k = 0;
        for(size_t i = 0; i < NCH; i++) if(T->c[i]->valid == 0) {
            zckChunk *rc = calloc(1, sizeof(zckChunk)); ASSUME(rc != NULL);
            rc->digest = malloc(DSZ); ASSUME(rc->digest != NULL); memcpy(rc->digest, T->c[i]->digest, DSZ);
            rc->digest_size = DSZ; rc->comp_length = T->c[i]->comp_length; rc->length = rc->comp_length; rc->start = P; rc->src = T->c[i]; rc->zck = T->z; rc->number = k++;
            P += rc->comp_length;
            if(prev) prev->next = rc; else r->index.first = rc;
            prev = rc;
        }
        ASSUME(k >= 1);
        r->index.count = k; r->index.digest_size = DSZ;
        zck_dl_set_range(dl, r);
    }
    return dl;
}

#ifdef H_h17a
/* header callback: any header line, twice (boundary learnt, then replaced), then free */
void h17a(void) {
    tgt_t T; zckDL *dl = mk_dl(&T, 0);
    for(int round = 0; round < 2; round++) {
        size_t n = nondet_size_t();
        ASSUME(n <= LMAXH);
        char *big = malloc(LMAXH + 4);             /* the transport hands out a pointer into its own larger buffer */
        ASSUME(big != NULL);
        char *line = big + 2;
        for(size_t i = 0; i < LMAXH; i++) { line[i] = nondet_char(); if(round == 0) IN_line[i] = (unsigned char)line[i]; }
        if(round == 0) IN_len = n;
        size_t ret = zck_header_cb(line, 1, n, dl);
        OBLIGE(ret == n || ret == 0, "C17/header-callback-accepts-or-signals-an-error");
        if(dl->boundary) {
            int term = 0;
            for(size_t i = 0; i <= LMAXH; i++) if(!term) { OBLIGE(__CPROVER_r_ok(dl->boundary + i, 1), "C17/learnt-boundary-is-a-terminated-string-inside-its-allocation"); if(dl->boundary[i] == 0) term = 1; }
            WITNESS("h17a-boundary");
        }
        free(big);
    }
    zck_dl_free(&dl);
    OBLIGE(dl == NULL, "C17/download-context-freed");
    WITNESS("h17a-end");
}
#endif

#ifdef H_h17b
/* write callback in multipart mode: any boundary string, any body bytes, two fragments */
#ifndef BMAX
#define BMAX 10
#endif
void h17b(void) {
    tgt_t T; zckDL *dl = mk_dl(&T, 1);
    size_t bl = nondet_size_t();
    ASSUME(bl <= 2);
    dl->boundary = malloc(bl + 1); ASSUME(dl->boundary != NULL);
    for(size_t i = 0; i < 2; i++) if(i < bl) { dl->boundary[i] = nondet_char(); ASSUME(dl->boundary[i] != 0); }
    dl->boundary[bl] = 0;
    /* confinement monitor: only bytes of requested (missing) chunks may be written */
    vf_guard_on[0] = 1;
    for(size_t i = 0; i < NCH; i++) if(T.c[i]->valid == 0)
        for(size_t k = 0; k < 2; k++) if(k < T.c[i]->comp_length) vf_allow(0, DOFF + T.c[i]->start + k, 1);
    unsigned char before[FCAP];
    for(size_t i = 0; i < FCAP; i++) before[i] = vf_data0[i];
    int failed = 0;
    for(int f = 0; f < 2; f++) if(!failed) {
        size_t n = nondet_size_t();
        ASSUME(n >= 1 && n <= BMAX);
        char *big = malloc(BMAX + 4); ASSUME(big != NULL);
        char *frag = big + 1;
        for(size_t i = 0; i < BMAX; i++) { frag[i] = nondet_char(); if(f == 0) IN_body[i] = (unsigned char)frag[i]; }
        if(f == 0) IN_l1 = n; else IN_l2 = n;
        size_t ret = zck_write_chunk_cb(frag, 1, n, dl);
        OBLIGE(ret == n || ret == 0, "C17/write-callback-accepts-or-signals-an-error");
        if(ret != n) failed = 1;
        free(big);
    }
    OBLIGE(!vf_guard_violated, "C17/only-bytes-of-requested-chunks-are-ever-written");
    for(size_t i = 0; i < DOFF; i++) OBLIGE(vf_data0[i] == before[i], "C17/header-bytes-never-modified");
    zck_dl_free(&dl);
    if(failed) WITNESS("h17b-error"); else WITNESS("h17b-accepted");
}
#endif

#ifdef H_h17g
/* gen_regex (static, reached by including the source) with an arbitrary boundary and a regcomp that may fail, followed by
 * what every transfer does next: a write callback invocation's regexec and zck_dl_reset's regfree */
#include "dl/multipart.c"
void h17g(void) {
    tgt_t T; zckDL *dl = mk_dl(&T, 0);
    size_t bl = nondet_size_t();
    ASSUME(bl <= 2);
    dl->boundary = malloc(bl + 1); ASSUME(dl->boundary != NULL);
    for(size_t i = 0; i < 2; i++) if(i < bl) { dl->boundary[i] = nondet_char(); ASSUME(dl->boundary[i] != 0); }
    dl->boundary[bl] = 0;
    bool ok = gen_regex(dl);
    OBLIGE(!ok || (dl->dl_regex != NULL && dl->end_regex != NULL), "C17/success-means-both-patterns-are-present");
    /* every pattern that is left behind must be a compiled one: decided by the model's assertion in the regexec / regfree calls below */
    if(dl->dl_regex) { regmatch_t m[4]; char subj[4] = {'a', 'b', 0, 0}; regexec(dl->dl_regex, subj, 3, m, 0); }
    if(dl->end_regex) { regmatch_t m[4]; char subj[4] = {'a', 'b', 0, 0}; regexec(dl->end_regex, subj, 3, m, 0); }
    zck_dl_reset(dl);
    if(ok) WITNESS("h17g-compiled"); else WITNESS("h17g-failed");
}
#endif
