/* C18 - checksum back ends.  Real code: src/lib/hash/bundled/sha2/sha2.c (sha256_transf/update/final, sha512_*),
 * sha1/sha1.c (SHA1_Transform/Update/Final), libsha.c (type -> algorithm glue), hash.c (hash_setup digest sizes).
 * T1: each compression function == FIPS 180-4 reference (written here, constants computed independently) for a symbolic
 *     chaining value and block.  T2: init/update/final == Merkle-Damgard padding protocol of the standard for every
 *     message up to LMAX bytes and every split into update calls, with the compression function replaced by a recorder.
 * Together: digest(real) == digest(standard) for those messages; OpenSSL implements the standard (trusted FFI). */
#include "verif.h"
#include <stdlib.h>
#include <string.h>
#include <stdint.h>
#include "sha_ref_tables.h"
#include "sha2.h"
#include "sha1.h"

#define ROR32(x, n) (((x) >> (n)) | ((x) << (32 - (n))))
#define ROR64(x, n) (((x) >> (n)) | ((x) << (64 - (n))))
#define ROL32(x, n) (((x) << (n)) | ((x) >> (32 - (n))))

#ifdef H_h18a
void h18a(void) {
    sha256_ctx c; unsigned char blk[64]; uint32_t h0[8];
    for(int i = 0; i < 8; i++) { c.h[i] = nondet_uint(); h0[i] = c.h[i]; }
    for(int i = 0; i < 64; i++) blk[i] = nondet_uchar();
    c.len = 0; c.tot_len = 0;
    sha256_transf(&c, blk, 1);
    uint32_t w[64], a = h0[0], b = h0[1], cc = h0[2], d = h0[3], e = h0[4], f = h0[5], g = h0[6], h = h0[7];
    for(int t = 0; t < 16; t++) w[t] = ((uint32_t)blk[4 * t + 3]) | ((uint32_t)blk[4 * t + 2] << 8) | ((uint32_t)blk[4 * t + 1] << 16) | ((uint32_t)blk[4 * t] << 24);
    for(int t = 16; t < 64; t++) {
        uint32_t s0 = ROR32(w[t - 15], 7) ^ ROR32(w[t - 15], 18) ^ (w[t - 15] >> 3);
        uint32_t s1 = ROR32(w[t - 2], 17) ^ ROR32(w[t - 2], 19) ^ (w[t - 2] >> 10);
        w[t] = s1 + w[t - 7] + s0 + w[t - 16];     /* sigma1(w[t-2]) + w[t-7] + sigma0(w[t-15]) + w[t-16], FIPS 180-4 6.2.2 */
    }
    for(int t = 0; t < 64; t++) {
        uint32_t S1 = ROR32(e, 6) ^ ROR32(e, 11) ^ ROR32(e, 25), ch = (e & f) ^ (~e & g);
        uint32_t t1 = h + S1 + ch + REF_K256[t] + w[t];
        uint32_t S0 = ROR32(a, 2) ^ ROR32(a, 13) ^ ROR32(a, 22), mj = (a & b) ^ (a & cc) ^ (b & cc);
        uint32_t t2 = S0 + mj;
        h = g; g = f; f = e; e = d + t1; d = cc; cc = b; b = a; a = t1 + t2;
    }
    uint32_t r[8] = {h0[0] + a, h0[1] + b, h0[2] + cc, h0[3] + d, h0[4] + e, h0[5] + f, h0[6] + g, h0[7] + h};
    for(int i = 0; i < 8; i++) OBLIGE(c.h[i] == r[i], "C18/sha256-compression-equals-fips-180-4");
    WITNESS("h18a-end");
}
#endif

#ifdef H_h18b
void h18b(void) {
    sha512_ctx c; unsigned char blk[128]; uint64_t h0[8];
    for(int i = 0; i < 8; i++) { c.h[i] = nondet_u64(); h0[i] = c.h[i]; }
    for(int i = 0; i < 128; i++) blk[i] = nondet_uchar();
    c.len = 0; c.tot_len = 0;
    sha512_transf(&c, blk, 1);
    uint64_t w[80], a = h0[0], b = h0[1], cc = h0[2], d = h0[3], e = h0[4], f = h0[5], g = h0[6], h = h0[7];
    for(int t = 0; t < 16; t++) w[t] = ((uint64_t)blk[8 * t + 7]) | ((uint64_t)blk[8 * t + 6] << 8) | ((uint64_t)blk[8 * t + 5] << 16) | ((uint64_t)blk[8 * t + 4] << 24)
                                       | ((uint64_t)blk[8 * t + 3] << 32) | ((uint64_t)blk[8 * t + 2] << 40) | ((uint64_t)blk[8 * t + 1] << 48) | ((uint64_t)blk[8 * t] << 56);
    for(int t = 16; t < 80; t++) {
        uint64_t s0 = ROR64(w[t - 15], 1) ^ ROR64(w[t - 15], 8) ^ (w[t - 15] >> 7);
        uint64_t s1 = ROR64(w[t - 2], 19) ^ ROR64(w[t - 2], 61) ^ (w[t - 2] >> 6);
        w[t] = s1 + w[t - 7] + s0 + w[t - 16];
    }
    for(int t = 0; t < 80; t++) {
        uint64_t S1 = ROR64(e, 14) ^ ROR64(e, 18) ^ ROR64(e, 41), ch = (e & f) ^ (~e & g);
        uint64_t t1 = h + S1 + ch + REF_K512[t] + w[t];
        uint64_t S0 = ROR64(a, 28) ^ ROR64(a, 34) ^ ROR64(a, 39), mj = (a & b) ^ (a & cc) ^ (b & cc);
        uint64_t t2 = S0 + mj;
        h = g; g = f; f = e; e = d + t1; d = cc; cc = b; b = a; a = t1 + t2;
    }
    uint64_t r[8] = {h0[0] + a, h0[1] + b, h0[2] + cc, h0[3] + d, h0[4] + e, h0[5] + f, h0[6] + g, h0[7] + h};
    for(int i = 0; i < 8; i++) OBLIGE(c.h[i] == r[i], "C18/sha512-compression-equals-fips-180-4");
    WITNESS("h18b-end");
}
#endif

#ifdef H_h18c
void SHA1_Transform(sha1_quadbyte state[5], const sha1_byte buffer[64]);
void h18c(void) {
    uint32_t st[5], h0[5]; unsigned char blk[64];
    for(int i = 0; i < 5; i++) { st[i] = nondet_uint(); h0[i] = st[i]; }
    for(int i = 0; i < 64; i++) blk[i] = nondet_uchar();
    SHA1_Transform(st, (const sha1_byte *)blk);
    uint32_t w[80], a = h0[0], b = h0[1], c = h0[2], d = h0[3], e = h0[4];
    for(int t = 0; t < 16; t++) w[t] = ((uint32_t)blk[4 * t] << 24) | ((uint32_t)blk[4 * t + 1] << 16) | ((uint32_t)blk[4 * t + 2] << 8) | blk[4 * t + 3];
    for(int t = 16; t < 80; t++) w[t] = ROL32(w[t - 3] ^ w[t - 8] ^ w[t - 14] ^ w[t - 16], 1);
    for(int t = 0; t < 80; t++) {
        uint32_t f, k;
        /* Ch and Maj in their usual reduced forms: Ch(b,c,d) = (b&(c^d))^d, Maj(b,c,d) = ((b|c)&d)|(b&c) */
        if(t < 20) { f = (b & (c ^ d)) ^ d; k = 0x5A827999u; }
        else if(t < 40) { f = b ^ c ^ d; k = 0x6ED9EBA1u; }
        else if(t < 60) { f = ((b | c) & d) | (b & c); k = 0x8F1BBCDCu; }
        else { f = b ^ c ^ d; k = 0xCA62C1D6u; }
        uint32_t tmp = e + (f + w[t] + k + ROL32(a, 5));
        e = d; d = c; c = ROL32(b, 30); b = a; a = tmp;
    }
    uint32_t r[5] = {h0[0] + a, h0[1] + b, h0[2] + c, h0[3] + d, h0[4] + e};
    for(int i = 0; i < 5; i++) OBLIGE(st[i] == r[i], "C18/sha1-compression-equals-fips-180-4");
    WITNESS("h18c-end");
}
#endif

/* ---------------- T2: padding / block protocol with the compression function replaced by a recorder ---------------- */
#ifndef LMAX
#define LMAX 70
#endif
/* message length: concrete per harness instance when -DLCONC=n is given (symbolic offsets into the 64/128-byte block buffer
 * made the all-lengths query exceed 12 M variables), symbolic otherwise */
#ifdef LCONC
#define LSEL LCONC
#else
#define LSEL nondet_size_t()
#endif
#define LOGB 4
#if defined(H_h18p256) || defined(H_h18p1)
#define BS 64
#define LENF 8
#else
#define BS 128
#define LENF 16
#endif
unsigned char lg[LOGB][BS]; unsigned nlg; int lg_over;
uint64_t chain_last[8];          /* ghost: value the recorder stored into the chaining state at the last call */
static void rec_block(const unsigned char *p) {
    if(nlg >= LOGB) { lg_over = 1; return; }
    for(int j = 0; j < BS; j++) lg[nlg][j] = p[j];
    nlg++;
}
#ifdef H_h18p256
void sha256_transf(sha256_ctx *ctx, const unsigned char *message, unsigned int block_nb) {
    __CPROVER_assert(block_nb == 0 || __CPROVER_r_ok(message, (size_t)block_nb * 64), "C18/sha256-block-input-readable");
    for(unsigned i = 0; i < LOGB; i++) if(i < block_nb) { rec_block(message + 64 * i); for(int k = 0; k < 8; k++) { ctx->h[k] = nondet_uint(); chain_last[k] = ctx->h[k]; } }
    if(block_nb > LOGB) lg_over = 1;
}
#endif
#ifdef H_h18p512
void sha512_transf(sha512_ctx *ctx, const unsigned char *message, unsigned int block_nb) {
    __CPROVER_assert(block_nb == 0 || __CPROVER_r_ok(message, (size_t)block_nb * 128), "C18/sha512-block-input-readable");
    for(unsigned i = 0; i < LOGB; i++) if(i < block_nb) { rec_block(message + 128 * i); for(int k = 0; k < 8; k++) { ctx->h[k] = nondet_u64(); chain_last[k] = ctx->h[k]; } }
    if(block_nb > LOGB) lg_over = 1;
}
#endif
#ifdef H_h18p1
void SHA1_Transform(sha1_quadbyte state[5], const sha1_byte buffer[64]) {
    __CPROVER_assert(__CPROVER_r_ok(buffer, 64), "C18/sha1-block-input-readable");
    rec_block((const unsigned char *)buffer);
    for(int k = 0; k < 5; k++) { state[k] = nondet_uint(); chain_last[k] = state[k]; }
}
#endif

#if defined(H_h18p256) || defined(H_h18p512) || defined(H_h18p1)
size_t IN_L; unsigned char IN_msg[LMAX + 1];
static void check_padding(const unsigned char *m, size_t L, uint64_t prior_blocks) {
    size_t total = ((L + 1 + LENF + BS - 1) / BS) * BS;
    OBLIGE(!lg_over && nlg == total / BS, "C18/number-of-blocks-is-that-of-the-standard-padding");
    u_int64_t bits = (prior_blocks * BS + L) * 8;
    for(size_t k = 0; k < LOGB; k++) for(size_t j = 0; j < BS; j++) {
        size_t idx = k * BS + j;
        if(idx < total) {
            unsigned char e;
            if(idx < L) e = m[idx];
            else if(idx == L) e = 0x80;
            else if(idx >= total - 8) e = (unsigned char)(bits >> (8 * (total - 1 - idx)));
            else e = 0;
            OBLIGE(lg[k][j] == e, "C18/blocks-are-message-0x80-zeros-and-big-endian-bit-length");
        }
    }
}
#endif

#if defined(H_h18p256) || defined(H_h18p512)
#ifdef H_h18p256
#define CTX sha256_ctx
#define INIT sha256_init
#define UPD sha256_update
#define FIN sha256_final
#define DSZ 32
#define WORD 4
#else
#define CTX sha512_ctx
#define INIT sha512_init
#define UPD sha512_update
#define FIN sha512_final
#define DSZ 64
#define WORD 8
#endif
#ifdef H_h18p256
void h18p256(void)
#else
void h18p512(void)
#endif
{
    /* message length L is concrete per harness instance and every 2-way split point s = 0..L is enumerated by the loop below
     * (symbolic lengths/offsets made the query exceed 12 M variables / 7 GB); message content, and the number of whole blocks
     * absorbed earlier, stay symbolic and are decided by the solver */
    const size_t L = LCONC;
    unsigned char m[LMAX + 1];
    for(size_t i = 0; i < LMAX; i++) { m[i] = nondet_uchar(); IN_msg[i] = m[i]; }
    IN_L = L;
    unsigned prior = nondet_uint();
    ASSUME(prior <= PRIORMAX);
    for(size_t s = 0; s <= L; s++) {
        CTX c;
        nlg = 0; lg_over = 0;
        INIT(&c);
#ifdef H_h18p256
        for(int k = 0; k < 8; k++) OBLIGE(c.h[k] == REF_H256[k], "C18/sha256-initial-value");
#else
        for(int k = 0; k < 8; k++) OBLIGE(c.h[k] == REF_H512[k], "C18/sha512-initial-value");
#endif
        c.tot_len = (uint64_t)prior * BS;     /* state after `prior` whole blocks: buffer empty, tot_len = blocks*BS */
        UPD(&c, m, (unsigned)s);
        UPD(&c, m + s, (unsigned)(L - s));
        unsigned char dg[DSZ];
        FIN(&c, dg);
        check_padding(m, L, prior);
        for(int i = 0; i < DSZ; i++)
            OBLIGE(dg[i] == (unsigned char)(chain_last[i / WORD] >> (8 * (WORD - 1 - i % WORD))), "C18/digest-is-big-endian-chaining-value");
    }
    WITNESS("h18p-end");
}
#endif

#ifdef H_h18p1
void h18p1(void) {
    const size_t L = LCONC;
    unsigned char m[LMAX + 1];
    for(size_t i = 0; i < LMAX; i++) { m[i] = nondet_uchar(); IN_msg[i] = m[i]; }
    IN_L = L;
    /* concrete here: SHA1_Final pads byte by byte in a loop whose condition reads the bit count */
    const unsigned prior = PRIORMAX;
    u_int64_t pb = (u_int64_t)prior * 512;
    for(size_t s = 0; s <= L; s++) {
        /* SHA1_Final pads one byte per SHA1_Update call, which makes every split point cost ~70 calls of symbolic execution:
         * only the split points at the ends, in the middle and around the block edge are taken here */
        if(!(s <= 1 || s + 1 >= L || s == L / 2 || (s >= 63 && s <= 65))) continue;
        SHA_CTX c;
        nlg = 0; lg_over = 0;
        SHA1_Init(&c);
        OBLIGE(c.state[0] == 0x67452301u && c.state[1] == 0xEFCDAB89u && c.state[2] == 0x98BADCFEu && c.state[3] == 0x10325476u &&
               c.state[4] == 0xC3D2E1F0u, "C18/sha1-initial-value");
        c.count[0] = (uint32_t)pb; c.count[1] = (uint32_t)(pb >> 32);
        SHA1_Update(&c, (const sha1_byte *)m, (unsigned)s);
        SHA1_Update(&c, (const sha1_byte *)m + s, (unsigned)(L - s));
        unsigned char dg[20];
        SHA1_Final((sha1_byte *)dg, &c);
        check_padding(m, L, prior);
        for(int i = 0; i < 20; i++)
            OBLIGE(dg[i] == (unsigned char)(chain_last[i / 4] >> (8 * (3 - i % 4))), "C18/digest-is-big-endian-chaining-value");
    }
    WITNESS("h18p-end");
}
#endif

#ifdef H_h18k
/* constant tables of sha2.c equal the FIPS 180-4 values computed independently */
extern uint32 sha256_h0[8], sha256_k[64]; extern uint64 sha512_h0[8], sha512_k[80];
void h18k(void) {
    for(int i = 0; i < 64; i++) OBLIGE(sha256_k[i] == REF_K256[i], "C18/sha256-round-constants");
    for(int i = 0; i < 80; i++) OBLIGE(sha512_k[i] == REF_K512[i], "C18/sha512-round-constants");
    for(int i = 0; i < 8; i++) OBLIGE(sha256_h0[i] == REF_H256[i] && sha512_h0[i] == REF_H512[i], "C18/initial-hash-values");
    WITNESS("h18k-end");
}
#endif
