/* C20 - compressed-integer codec.  Real TU: src/lib/compint.c (linked unmodified).
 * Calling convention taken from every call site in header.c / index_read.c:
 *   compint_to_size(zck, &v, base + cur, &cur, n)   where base is a buffer of n bytes. */
#include "verif.h"
#include "zck_private.h"
#include <stdlib.h>
#include <limits.h>

#define NMAX 12
/* inputs mirrored into globals so the replay extractor finds them in the trace */
size_t IN_n, IN_cur; int IN_mode; unsigned char IN_buf[NMAX];

static zckCtx *mkctx(void) {
    zckCtx *z = calloc(1, sizeof(zckCtx));
    ASSUME(z != NULL);
    return z;
}

/* reference: exact value of the encoding that starts at b[cur], using 128-bit arithmetic.
 * returns 1 = well formed within avail bytes and <=10 bytes long, sets *v (128 bit) and *len
 *         0 = unterminated within min(avail,10) bytes */
static int ref_decode(const unsigned char *b, size_t avail, unsigned __int128 *v, size_t *len) {
    unsigned __int128 acc = 0;
    for(size_t k = 0; k < 10; k++) {
        if(k >= avail)
            return 0;
        unsigned c = b[k];
        acc |= ((unsigned __int128)(c & 127)) << (7 * k);
        if(c & 128) {
            *v = acc;
            *len = k + 1;
            return 1;
        }
    }
    return 0;
}

/* H20a: decode to size_t from an exact-size heap object */
void h20a(void) {
    size_t n = nondet_size_t();
    ASSUME(n >= 1 && n <= NMAX);
    unsigned char *base = malloc(n);
    ASSUME(base != NULL);
    for(size_t k = 0; k < NMAX; k++)
        if(k < n) base[k] = nondet_uchar();
    size_t cur = nondet_size_t();
    ASSUME(cur <= n);
    IN_n = n; IN_cur = cur; IN_mode = 0;
    for(size_t k = 0; k < NMAX; k++) if(k < n) IN_buf[k] = base[k];
    zckCtx *z = mkctx();
    size_t val = nondet_size_t();
    size_t len = cur;
    int ok = compint_to_size(z, &val, (const char *)base + cur, &len, n);

    unsigned __int128 rv = 0; size_t rl = 0;
    int wf = ref_decode(base + cur, n - cur, &rv, &rl);
    int fits = wf && (rv >> 64) == 0;
    OBLIGE((ok != 0) == (fits != 0), "C20/size-accept-iff-wellformed-and-fits");
    if(ok) {
        OBLIGE(val == (size_t)rv, "C20/size-value-exact");
        OBLIGE(len == cur + rl, "C20/size-consumed-exact");
        WITNESS("h20a-accept");
    } else {
        WITNESS("h20a-reject");
    }
}

/* H20b: decode to int */
void h20b(void) {
    size_t n = nondet_size_t();
    ASSUME(n >= 1 && n <= NMAX);
    unsigned char *base = malloc(n);
    ASSUME(base != NULL);
    for(size_t k = 0; k < NMAX; k++)
        if(k < n) base[k] = nondet_uchar();
    size_t cur = nondet_size_t();
    ASSUME(cur <= n);
    IN_n = n; IN_cur = cur; IN_mode = 1;
    for(size_t k = 0; k < NMAX; k++) if(k < n) IN_buf[k] = base[k];
    zckCtx *z = mkctx();
    int val = nondet_int();
    size_t len = cur;
    int ok = compint_to_int(z, &val, (const char *)base + cur, &len, n);

    unsigned __int128 rv = 0; size_t rl = 0;
    int wf = ref_decode(base + cur, n - cur, &rv, &rl);
    int fits = wf && rv <= (unsigned __int128)INT_MAX;
    OBLIGE((ok != 0) == (fits != 0), "C20/int-accept-iff-wellformed-and-fits-int");
    if(ok) {
        OBLIGE(val >= 0 && (unsigned __int128)val == rv, "C20/int-value-exact");
        OBLIGE(len == cur + rl, "C20/int-consumed-exact");
        WITNESS("h20b-accept");
    } else {
        WITNESS("h20b-reject");
    }
}

/* H20c: encode -> decode round trip for every 64-bit value; canonical, <= 10 bytes */
void h20c(void) {
    size_t v = nondet_size_t();
    unsigned char *buf = malloc(MAX_COMP_SIZE);
    ASSUME(buf != NULL);
    size_t off = 0;
    compint_from_size((char *)buf, v, &off);
    OBLIGE(off >= 1 && off <= 10, "C20/enc-length-1-to-10");
    OBLIGE((buf[off - 1] & 128) != 0, "C20/enc-last-byte-terminated");
    for(size_t k = 0; k < 10; k++)
        if(k + 1 < off)
            OBLIGE((buf[k] & 128) == 0, "C20/enc-inner-bytes-continue");
    /* canonical: no redundant trailing zero group unless the value is 0 */
    OBLIGE(off == 1 || (buf[off - 1] & 127) != 0, "C20/enc-canonical");
    zckCtx *z = mkctx();
    size_t back = nondet_size_t(), len = 0;
    int ok = compint_to_size(z, &back, (const char *)buf, &len, off);
    OBLIGE(ok, "C20/roundtrip-decodes");
    OBLIGE(back == v, "C20/roundtrip-value");
    OBLIGE(len == off, "C20/roundtrip-consumes-exactly-what-was-produced");
    WITNESS("h20c-end");
}

/* H20d: int encoder rejects negatives, otherwise equals the size encoder */
void h20d(void) {
    int v = nondet_int();
    unsigned char *a = malloc(MAX_COMP_SIZE), *b = malloc(MAX_COMP_SIZE);
    ASSUME(a != NULL && b != NULL);
    zckCtx *z = mkctx();
    size_t la = 0, lb = 0;
    int ok = compint_from_int(z, (char *)a, v, &la);
    OBLIGE((ok != 0) == (v >= 0), "C20/from-int-rejects-negative");
    if(ok) {
        compint_from_size((char *)b, (size_t)v, &lb);
        OBLIGE(la == lb, "C20/from-int-same-length");
        for(size_t k = 0; k < 10; k++)
            if(k < la) OBLIGE(a[k] == b[k], "C20/from-int-same-bytes");
        int back = nondet_int(); size_t len = 0;
        int ok2 = compint_to_int(z, &back, (const char *)a, &len, la);
        OBLIGE(ok2 && back == v && len == la, "C20/int-roundtrip");
        WITNESS("h20d-accept");
    } else {
        OBLIGE(la == 0, "C20/from-int-reject-writes-nothing");
        WITNESS("h20d-reject");
    }
}

/* H20e: the straight-line reference env/compint_spec.c (linked by parser harnesses in place of compint.c) is
 * equivalent to the real compint.c on every input: verdict, value, cursor, error state; encoders byte for byte. */
#ifdef H_h20e
int spec_compint_to_size(zckCtx *zck, size_t *val, const char *compint, size_t *length, size_t max_length);
int spec_compint_to_int(zckCtx *zck, int *val, const char *compint, size_t *length, size_t max_length);
void spec_compint_from_size(char *compint, size_t val, size_t *length);
int spec_compint_from_int(zckCtx *zck, char *compint, int val, size_t *length);
void h20e(void) {
    size_t n = nondet_size_t();
    ASSUME(n >= 1 && n <= NMAX);
    unsigned char *base = malloc(n);
    ASSUME(base != NULL);
    for(size_t i = 0; i < NMAX; i++) if(i < n) { base[i] = nondet_uchar(); IN_buf[i] = base[i]; }
    size_t cur = nondet_size_t();
    ASSUME(cur <= n);
    IN_n = n; IN_cur = cur;
    int pre_err = nondet_int();
    ASSUME(pre_err >= 0 && pre_err <= 2);
    zckCtx *za = mkctx(), *zb = mkctx();
    za->error_state = pre_err; zb->error_state = pre_err;
    size_t init = nondet_size_t();
    if(nondet_bool()) {
        size_t va = init, vb = init, la = cur, lb = cur;
        int ra = compint_to_size(za, &va, (const char *)base + cur, &la, n);
        int rb = spec_compint_to_size(zb, &vb, (const char *)base + cur, &lb, n);
        OBLIGE((ra != 0) == (rb != 0), "C20/spec-equivalent-size-verdict");
        if(ra) OBLIGE(va == vb && la == lb, "C20/spec-equivalent-size-value-and-cursor");
        else if(pre_err == 0) OBLIGE(la == cur, "C20/failed-decode-leaves-cursor");
        OBLIGE(za->error_state == zb->error_state, "C20/spec-equivalent-error-state");
    } else {
        int ia = (int)init, ib = (int)init; size_t la = cur, lb = cur;
        int ra = compint_to_int(za, &ia, (const char *)base + cur, &la, n);
        int rb = spec_compint_to_int(zb, &ib, (const char *)base + cur, &lb, n);
        OBLIGE((ra != 0) == (rb != 0), "C20/spec-equivalent-int-verdict");
        if(ra) OBLIGE(ia == ib && la == lb, "C20/spec-equivalent-int-value-and-cursor");
        OBLIGE(za->error_state == zb->error_state, "C20/spec-equivalent-error-state");
    }
    /* encoders */
    size_t v = nondet_size_t(), ea = 0, eb = 0;
    unsigned char oa[MAX_COMP_SIZE], ob[MAX_COMP_SIZE];
    compint_from_size((char *)oa, v, &ea);
    spec_compint_from_size((char *)ob, v, &eb);
    OBLIGE(ea == eb, "C20/spec-equivalent-encoder-length");
    for(size_t k = 0; k < 10; k++) if(k < ea) OBLIGE(oa[k] == ob[k], "C20/spec-equivalent-encoder-bytes");
    WITNESS("h20e-end");
}
#endif
