/* C06 - the header checksum covers every header byte.  Real code: src/lib/header.c (read_header_from_file, reached by
 * including the source; header_create, lead_create, preface_create, sig_create), src/lib/hash/hash.c (hash_init/update/
 * finalize, validate_header), io.c (read_data), index_create.c (index_create).  Hash back end = env/hash_acc.c: the
 * running context records the exact message, so "which bytes are hashed" is observable. */
#include "leadstate.h"
#include "header.c"

#ifndef HT
#define HT 3
#endif
#ifndef HLMAX
#define HLMAX 12
#endif
#define DS (HT == 0 ? 20 : HT == 1 ? 32 : HT == 2 ? 64 : 16)

#if defined(H_h06r) || defined(H_h06i)
size_t IN_fsz; unsigned char IN_file[FCAP];
/* expected message per zchunk_format.txt: fixed id, lead up to the stored digest, whole remaining header */
static size_t expect_msg(const unsigned char *fb, const ref_lead_t *r, unsigned char *em) {
    static const unsigned char id[5] = {0, 'Z', 'C', 'K', '1'};
    size_t hl = (size_t)r->hlen, n = 0;
    for(size_t i = 0; i < 5; i++) em[n++] = id[i];
    for(size_t i = 5; i < MINLEAD; i++) if(i < r->digest_loc) em[n++] = fb[i];
    for(size_t i = 0; i < HMAX; i++) if(i < hl && n < HMAX && r->lead_size + i < FCAP) em[n++] = fb[r->lead_size + i];
    return r->digest_loc + hl;
}
#endif

#ifdef H_h06r
void h06r(void) {
    vf_havoc(0);
    lead_state_t s = mk_after_lead_b(0, 3, HT, HLMAX);
    zckCtx *z = s.z;
    unsigned char fb[FCAP];
    for(size_t i = 0; i < FCAP; i++) { fb[i] = vf_data0[i]; IN_file[i] = fb[i]; }
    IN_fsz = s.fsz;
    size_t hl = (size_t)s.r.hlen, ls = s.r.lead_size;
    bool ok = read_header_from_file(z);
    int complete = (u128)ls + s.r.hlen <= (u128)s.fsz;
    if(ok) {
        OBLIGE(complete, "C06/accepted-header-is-completely-present-in-the-file");
        ASSUME(complete);
        OBLIGE(!hm_overflow, "C06/model-capacity");
        /* the message that was hashed is exactly id || lead[5..digest) || header[lead_size..end) */
        unsigned char em[HMAX];
        size_t el = expect_msg(fb, &s.r, em);
        OBLIGE(hm_last_len == el, "C06/hashed-message-length-is-lead-up-to-digest-plus-whole-header");
        int same = 1;
        for(size_t i = 0; i < HMAX; i++) if(i < el && hm_last_msg[i] != em[i]) same = 0;
        OBLIGE(same, "C06/hashed-message-is-id-lead-up-to-digest-and-every-remaining-header-byte");
        /* and the comparison covered every digest byte */
        unsigned char d[64];
        model_digest(HT, em, el, d);
        int eq = 1;
        for(int i = 0; i < 64; i++) if(i < DS && d[i] != fb[s.r.digest_loc + i]) eq = 0;
        OBLIGE(eq, "C06/accepted-only-if-stored-digest-equals-computed-digest-on-every-byte");
        /* HdrInv: the header buffer now holds the file's lead+header */
        OBLIGE(z->header_size == ls + hl && (pa_is_managed(z->header) ? pa_size_of(z->header) : __CPROVER_OBJECT_SIZE(z->header)) == ls + hl, "C06/hdrinv-buffer-is-lead-plus-header");
        int bytes = 1;
        for(size_t i = 0; i < FCAP; i++) if(i < ls + hl && (unsigned char)z->header[i] != fb[i]) bytes = 0;
        OBLIGE(bytes, "C06/hdrinv-buffer-holds-the-file-bytes");
        OBLIGE(vf_pos[0] == (long)(ls + hl) || (ls + hl < MINLEAD && vf_pos[0] == MINLEAD), "C06/hdrinv-stream-at-end-of-header");
        OBLIGE(z->check_full_hash.ctx != NULL, "C06/hdrinv-running-data-hash-initialised");
        WITNESS("h06r-accept");
    } else {
        /* converse (sanity, not demanded by the property): a complete, correctly sealed header passes this stage */
        if(complete && hl <= HMAX - MINLEAD && hl >= z->header_size - ls && hl > 0) {
            unsigned char em[HMAX], d[64];
            size_t el = expect_msg(fb, &s.r, em);
            model_digest(HT, em, el, d);
            int eq = 1;
            for(int i = 0; i < 64; i++) if(i < DS && d[i] != fb[s.r.digest_loc + i]) eq = 0;
            OBLIGE(!eq, "C06/correctly-sealed-complete-header-is-accepted");
        }
        WITNESS("h06r-reject");
    }
}
#endif

#ifdef H_h06i
/* layout injectivity on the real code's messages: two files whose hashed messages and stored digests coincide are equal
 * on every byte of [5, end of header) - so, under collision resistance, no byte outside the 5-byte id can change. */
void h06i(void) {
    vf_havoc(0); vf_havoc(1);
    lead_state_t a = mk_after_lead_b(0, 3, HT, HLMAX), b = mk_after_lead_b(1, 4, HT, HLMAX);
    bool oka = read_header_from_file(a.z);
    unsigned char ma[HMAX]; size_t la = hm_last_len;
    for(size_t i = 0; i < HMAX; i++) ma[i] = hm_last_msg[i];
    unsigned nfa = hm_nfinal;
    bool okb = read_header_from_file(b.z);
    if(oka && okb) {
        OBLIGE(!hm_overflow && hm_nfinal == nfa + 1 && nfa == 1, "C06/one-digest-computation-per-header");
        int same = la == hm_last_len;
        for(size_t i = 0; i < HMAX; i++) if(i < la && ma[i] != hm_last_msg[i]) same = 0;
        int samed = 1;
        for(int i = 0; i < 64; i++) if(i < DS && a.z->header_digest[i] != b.z->header_digest[i]) samed = 0;
        if(same && samed) {
            size_t ea = a.r.lead_size + (size_t)a.r.hlen, eb = b.r.lead_size + (size_t)b.r.hlen;
            OBLIGE(ea == eb, "C06/same-message-same-header-extent");
            int eq = 1;
            for(size_t i = 5; i < FCAP; i++) if(i < ea && vf_data0[i] != vf_data1[i]) eq = 0;
            OBLIGE(eq, "C06/same-message-and-stored-digest-imply-identical-header-bytes-beyond-the-id");
            WITNESS("h06i-same");
        } else {
            WITNESS("h06i-differ");
        }
    }
}
#endif

#ifdef H_h06w
/* writer side: header_create hashes the same ranges of what it then hands to write_header */
#ifndef WN
#define WN 1
#endif
#ifndef WCOMP
#define WCOMP ZCK_COMP_ZSTD
#endif
#ifndef WUNC
#define WUNC 0
#endif
#ifndef WVMAX
#define WVMAX 16384
#endif
void h06w(void) {
    zckCtx *z = mk_ctx(ZCK_MODE_WRITE);
    bool s1 = hash_setup(z, &z->hash_type, HT), s2 = hash_setup(z, &z->chunk_hash_type, ZCK_HASH_SHA512_128);
    ASSUME(s1 && s2);
    z->index.hash_type = ZCK_HASH_SHA512_128; z->index.digest_size = 16;
    bool hi = hash_init(z, &z->full_hash, &z->hash_type);
    ASSUME(hi);
    z->comp.type = WCOMP;
    z->has_uncompressed_source = WUNC;
    size_t n = WN;
    zckChunk *prev = NULL;
    for(size_t i = 0; i < WN; i++) if(i < n) {
        zckChunk *c = calloc(1, sizeof(zckChunk));
        ASSUME(c != NULL);
        c->digest = malloc(16); c->digest_uncompressed = malloc(16);
        ASSUME(c->digest && c->digest_uncompressed);
        fill_nondet(c->digest, 16); fill_nondet(c->digest_uncompressed, 16);
        c->digest_size = 16; c->comp_length = nondet_size_t(); c->length = nondet_size_t();
        ASSUME(c->comp_length < WVMAX && c->length < WVMAX); c->zck = z; c->number = i;
        if(prev) prev->next = c; else z->index.first = c;
        prev = c; z->index.last = c;
    }
    z->index.count = n;
    bool ok = header_create(z);
    OBLIGE(ok, "C06/writer-header-created");
    ASSUME(ok);
    OBLIGE(!hm_overflow, "C06/model-capacity");
    const unsigned char *h = (const unsigned char *)z->header;
    size_t hs = z->header_size;
    OBLIGE(pa_size_of(z->header) == hs && hs == z->data_offset && hs <= FCAP, "C06/writer-header-buffer-size");
    ASSUME(hs <= FCAP);
    unsigned char fb[FCAP];
    for(size_t i = 0; i < FCAP; i++) fb[i] = i < hs ? h[i] : 0;
    ref_lead_t r = ref_lead(fb, hs < MINLEAD ? MINLEAD : hs);
    OBLIGE(r.ok && !r.detached && r.htype == HT, "C06/writer-lead-wellformed");
    OBLIGE(r.lead_size + (size_t)r.hlen == hs, "C06/writer-header-length-field-is-exact");
    OBLIGE(r.digest_loc == z->hdr_digest_loc && r.lead_size == z->lead_size, "C06/writer-lead-fields");
    /* the digest stored in the lead is the digest of lead[0..digest) || header[lead_size..end) - the reader's message */
    unsigned char em[HMAX]; size_t el = 0;
    for(size_t i = 0; i < MINLEAD; i++) if(i < r.digest_loc) em[el++] = fb[i];
    for(size_t i = 0; i < HMAX; i++) if(r.lead_size + i < hs && el < HMAX) em[el++] = fb[r.lead_size + i];
    unsigned char d[64];
    model_digest(HT, em, el, d);
    int eq = 1;
    for(int i = 0; i < 64; i++) if(i < DS && d[i] != fb[r.digest_loc + i]) eq = 0;
    OBLIGE(el == r.digest_loc + (size_t)r.hlen, "C06/writer-message-length");
    OBLIGE(eq, "C06/writer-stores-digest-of-the-same-ranges-the-reader-hashes");
    WITNESS("h06w-end");
}
#endif

#ifdef H_h03h
/* C03: header stage on the state a successful lead read leaves, exact-size allocations (CBMC's pointer checks are the
 * guard page), arbitrary header_length (up to 2^64 - lead), arbitrary file length, arbitrary digest (any seal may pass). */
void h03h(void) {
    vf_havoc(0);
    lead_state_t s = mk_after_lead(0, 3, HT);
    zckCtx *z = s.z;
    size_t hl = (size_t)s.r.hlen, ls = s.r.lead_size;
    bool ok = read_header_from_file(z);
    if(ok) {
        OBLIGE((u128)ls + s.r.hlen <= (u128)s.fsz, "C03/accepted-header-is-completely-present-in-the-file");
        OBLIGE(z->header_size == ls + hl && __CPROVER_OBJECT_SIZE(z->header) == ls + hl, "C03/hdrinv-buffer-is-lead-plus-header");
        WITNESS("h03h-accept");
    } else {
        WITNESS("h03h-reject");
    }
}
#endif
