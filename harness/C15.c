/* C15 / C02 / C14 - the read path.  Real code: src/lib/comp/comp.c (zck_read, comp_read, comp_read_from_dc,
 * comp_add_to_data, comp_end_dchunk, comp_add_to_dc, comp_init, comp_reset, zck_get_chunk_data, zck_get_chunk_comp_data),
 * comp/zstd/zstd.c and comp/nocomp/nocomp.c (end_dchunk / decompress), hash.c (validate_current_chunk, validate_file),
 * zck.c (zck_close, import_dict), io.c.  libzstd = env/zstd_stub.c codec-A (1 marker byte + the data verbatim).
 * Opened context built directly: empty dictionary entry + ND data chunks; body = arbitrary file of arbitrary length. */
#include "ctxbuild.h"
#include <string.h>
#ifndef DOFF
#define DOFF 2
#endif
#ifndef CMAX
#define CMAX 3               /* max stored size of a data chunk */
#endif
#ifndef NRD
#define NRD 3                /* number of zck_read calls */
#endif
#ifndef RMAX
#define RMAX 2               /* max bytes per read request */
#endif
#ifndef COMP
#define COMP ZCK_COMP_ZSTD
#endif
#ifndef CL2
#define CL2 1
#define UL2 0
#endif
#define ND (NCH - 1)
#define OMAX (ND * CMAX)
size_t IN_fsz, IN_len[NCH], IN_ulen[NCH], IN_rd[NRD]; unsigned char IN_file[FCAP], IN_dig[NCH][DSZ], IN_full[32];

typedef struct {
    tgt_t t; size_t fsz;
    int ok[NCH];                 /* chunk i: completely present, stored bytes hash to its digest, decodes to its declared length */
    size_t ooff[NCH], olen[NCH]; /* slice of the reference output produced by chunk i */
    unsigned char out[OMAX + 1]; size_t outlen;
    int allok, fullok;
} rd_t;

static rd_t setup(void) {
    rd_t s;
    vf_havoc(0);
#ifdef SHAPE
    /* concrete shape per harness instance (stored / declared sizes, file length, request size): control flow of the read
     * loop then resolves by constant propagation; bytes, digests and hence every checksum verdict stay symbolic */
    size_t fsz = FSZ;
#else
    size_t fsz = nondet_size_t();
#endif
    ASSUME(fsz <= FCAP);
    vf_attach(0, 3, fsz);
    for(size_t i = 0; i < FCAP; i++) IN_file[i] = vf_data0[i];
    IN_fsz = fsz; s.fsz = fsz;
    s.t = mk_target(NCH, DOFF - 1, 1);
    zckCtx *z = s.t.z;
    z->fd = 3;
    z->full_hash_digest = malloc(32);
    ASSUME(z->full_hash_digest != NULL);
    fill_nondet(z->full_hash_digest, 32);
    for(int k = 0; k < 32; k++) IN_full[k] = (unsigned char)z->full_hash_digest[k];
    /* chunk 0 = empty dictionary */
    s.t.c[0]->comp_length = 0; s.t.c[0]->length = 0; memset(s.t.c[0]->digest, 0, DSZ);
    for(size_t i = 1; i < NCH; i++) {
#ifdef SHAPE
        s.t.c[i]->comp_length = (i == 1) ? CL1 : CL2; s.t.c[i]->length = (i == 1) ? UL1 : UL2;
#else
        ASSUME(s.t.c[i]->comp_length >= 1 && s.t.c[i]->comp_length <= CMAX && s.t.c[i]->length <= CMAX + 1);
#endif
    }
    for(size_t i = 0; i < NCH; i++) { s.t.c[i]->valid = 0; IN_len[i] = s.t.c[i]->comp_length; IN_ulen[i] = s.t.c[i]->length;
        for(int k = 0; k < DSZ; k++) IN_dig[i][k] = (unsigned char)s.t.c[i]->digest[k]; }
    fix_starts(&s.t, NCH);
#ifndef LIGHT
    /* reference decoding from the file bytes (format + codec contract) */
    unsigned char all[OMAX + 1]; size_t na = 0;
    s.outlen = 0; s.allok = 1;
    s.ok[0] = 1; s.ooff[0] = 0; s.olen[0] = 0;
    for(size_t i = 1; i < NCH; i++) {
        zckChunk *c = s.t.c[i];
        size_t off = DOFF + c->start;
        int present = off + c->comp_length <= fsz;
        unsigned char b[CMAX + 1], d[64];
        for(size_t k = 0; k < CMAX; k++) { b[k] = (k < c->comp_length && off + k < FCAP) ? vf_data0[off + k] : 0; if(k < c->comp_length && na < OMAX) all[na++] = b[k]; }
        model_digest(CHT, b, c->comp_length, d);
        int eq = 1;
        for(int k = 0; k < DSZ; k++) if(d[k] != (unsigned char)c->digest[k]) eq = 0;
        int dec_ok; size_t dl, skip;
        if(COMP == ZCK_COMP_ZSTD) { dec_ok = b[0] == 0x25 && c->length == c->comp_length - 1; dl = c->comp_length - 1; skip = 1; }
        else { dec_ok = c->length == c->comp_length; dl = c->comp_length; skip = 0; }
        s.ok[i] = present && eq && dec_ok;
        s.ooff[i] = s.outlen; s.olen[i] = dl;
        for(size_t k = 0; k < CMAX; k++) if(k < dl && s.outlen < OMAX) s.out[s.outlen++] = b[skip + k];
        if(!s.ok[i]) s.allok = 0;
    }
    unsigned char fd[64];
    model_digest(ZCK_HASH_SHA256, all, na, fd);
    s.fullok = 1;
    for(int k = 0; k < 32; k++) if(fd[k] != (unsigned char)z->full_hash_digest[k]) s.fullok = 0;
#endif
    /* what zck_read_header leaves behind: codec initialised, running data digest fresh, stream at the data */
    zs_mode = 0;
    bool a = comp_ioption(z, ZCK_COMP_TYPE, COMP), b2 = comp_init(z), c2 = hash_init(z, &z->check_full_hash, &z->hash_type);
    ASSUME(a && b2 && c2);
    vf_pos[0] = DOFF;
    return s;
}

#ifdef H_h15r
/* sequential reads with symbolic buffer sizes */
void h15r(void) {
    rd_t s = setup();
    zckCtx *z = s.t.z;
    size_t pos = 0; int failed = 0, eof = 0;
    unsigned char got[NRD * RMAX + 1];
    char *buf = malloc(RMAX);
    ASSUME(buf != NULL);
    for(int r = 0; r < NRD; r++) {
#ifdef SHAPE
        size_t want = WANT;
#else
        size_t want = nondet_size_t();
        ASSUME(want >= 1 && want <= RMAX);
#endif
        IN_rd[r] = want;
        if(failed && nondet_bool()) zck_clear_error(z);        /* a caller may clear a non-fatal error and read on */
        ssize_t n = zck_read(z, buf, want);
        if(n < 0) { failed = 1; continue; }
        OBLIGE((size_t)n <= want, "C15/read-returns-no-more-than-requested");
        /* every byte released belongs to the reference output at the running position and comes from a verified chunk */
        for(size_t k = 0; k < RMAX; k++) if(k < (size_t)n) {
            size_t p = pos + k;
            OBLIGE(p < s.outlen, "C02/no-byte-beyond-the-reference-content");
            int owner_ok = 0;
            for(size_t i = 1; i < NCH; i++) if(p >= s.ooff[i] && p < s.ooff[i] + s.olen[i]) owner_ok = s.ok[i];
            OBLIGE(owner_ok, "C15/released-byte-belongs-to-a-chunk-whose-stored-bytes-match-its-checksum");
            if(p < s.outlen) OBLIGE((unsigned char)buf[k] == s.out[p], "C02/released-byte-equals-the-reference-decoding");
            if(p < sizeof got) got[p] = (unsigned char)buf[k];
        }
        pos += (size_t)n;
        if(n == 0) eof = 1;
    }
    OBLIGE(!hm_overflow, "C15/model-capacity");
    if(!failed && eof) {
        bool cl = zck_close(z);
        if(cl) {
            OBLIGE(s.allok && s.fullok, "C02/successful-read-to-end-and-close-only-for-a-file-the-reference-decoder-accepts");
            OBLIGE(pos == s.outlen, "C02/successful-read-to-end-returns-the-whole-content");
            WITNESS("h15r-clean-eof");
        }
    }
    if(failed) WITNESS("h15r-error");
}
#endif

#ifdef H_h14
/* random access: NRQ requests with symbolic chunk numbers through both getters */
#ifndef NRQ
#define NRQ 2
#endif
size_t IN_req[NRQ]; int IN_kind[NRQ];
void h14(void) {
    rd_t s = setup();
    zckCtx *z = s.t.z;
    for(size_t i = 1; i < NCH; i++) ASSUME(s.ok[i]);        /* valid file: the property quantifies over valid files */
    ASSUME(s.fsz >= DOFF + z->index.length);
    char *buf = malloc(CMAX + 1);
    ASSUME(buf != NULL);
    for(int q = 0; q < NRQ; q++) {
        size_t i = nondet_size_t();
        ASSUME(i < NCH);
        int raw = nondet_bool();
        IN_req[q] = i; IN_kind[q] = raw;
        zckChunk *c = zck_get_chunk(z, i);
        OBLIGE(c == s.t.c[i], "C14/chunk-lookup");
        if(raw) {
            ssize_t n = zck_get_chunk_comp_data(c, buf, CMAX + 1 > c->comp_length ? c->comp_length : CMAX + 1);
            OBLIGE(n == (ssize_t)c->comp_length, "C14/stored-data-request-returns-the-stored-size");
            if(n > 0) for(size_t k = 0; k < CMAX; k++) if(k < (size_t)n)
                OBLIGE((unsigned char)buf[k] == vf_data0[DOFF + c->start + k], "C14/stored-data-request-returns-the-stored-bytes");
        } else {
            ssize_t n = zck_get_chunk_data(c, buf, c->length);
            OBLIGE(n == (ssize_t)s.olen[i], "C14/data-request-returns-the-declared-size-regardless-of-history");
            if(n > 0) for(size_t k = 0; k < CMAX; k++) if(k < (size_t)n)
                OBLIGE((unsigned char)buf[k] == s.out[s.ooff[i] + k], "C14/data-request-returns-the-chunk-slice-regardless-of-history");
        }
    }
    WITNESS("h14-end");
}
#endif

#ifdef H_h15v
/* C15 with the checksum verdict as an environment variable: validate_current_chunk is replaced by a recorder that returns an
 * arbitrary verdict (the real comparison is decided in C09/C05 harnesses and in h15u below).  One data chunk: once the
 * verdict "mismatch" was given, no later successful read may deliver any byte (every byte belongs to that chunk), and the
 * read during which it was given must fail. */
int v_verdicts, v_bad;
int validate_current_chunk(zckCtx *zck) {
    if(zck == NULL || zck->error_state > 0) return 0;
    __CPROVER_assert(zck->comp.data_idx != NULL, "C15/chunk-end-validation-has-a-current-chunk");
    int v = nondet_bool() ? 1 : -1;
    v_verdicts++;
    if(v < 1) { v_bad = 1; if(zck->comp.data_idx) zck->comp.data_idx->valid = -1; } else if(zck->comp.data_idx) zck->comp.data_idx->valid = 1;
    return v;
}
void h15v(void) {
    rd_t s = setup();
    zckCtx *z = s.t.z;
    char *buf = malloc(RMAX);
    ASSUME(buf != NULL);
    int bad_before_call;
    for(int r = 0; r < NRD; r++) {
        size_t want = nondet_size_t();
        ASSUME(want >= 1 && want <= RMAX);
        IN_rd[r] = want;
        bad_before_call = v_bad;
        int clr = nondet_bool();
        if(clr) zck_clear_error(z);                 /* a caller may clear a non-fatal error and read on */
        ssize_t n = zck_read(z, buf, want);
        if(v_bad) {
            OBLIGE(n <= 0, "C15/no-read-succeeds-with-data-once-the-chunk-failed-its-checksum");
            if(!bad_before_call) OBLIGE(n < 0, "C15/the-read-that-needs-the-bad-chunk-reports-an-error");
        }
    }
    if(v_bad) WITNESS("h15v-bad"); else WITNESS("h15v-good");
}
#endif
