/* C09 - validity scan.  Real code: src/lib/hash/hash.c (validate_checksums via zck_find_valid_chunks / zck_validate_checksums,
 * zck_validate_data_checksum, validate_chunk, validate_file, hash_init/update/finalize), io.c (read_data, seek_data).
 * State: an opened context (DESIGN 2.4 OpenInv) with NCH chunks built directly, body = arbitrary file of arbitrary length.
 * Hash back end = env/hash_acc.c: deterministic and injective for the short messages used here, so "bytes hash to the index
 * digest" is decidable inside the harness.  BUF_SIZE is scaled so that a chunk spans several read blocks. */
#include "ctxbuild.h"
#include <string.h>

#ifndef DOFF
#define DOFF 3               /* data_offset (header length) */
#endif
#ifndef CMAX
#define CMAX 3               /* max stored chunk size */
#endif
size_t IN_fsz; unsigned char IN_file[FCAP]; size_t IN_len[NCH]; unsigned char IN_dig[NCH][DSZ], IN_full[32];
int IN_honly, IN_unc;

typedef struct { tgt_t t; size_t fsz; size_t len[NCH]; int present[NCH], match[NCH]; int allmatch, fullmatch; } scn_t;

static scn_t setup(void) {
    scn_t s;
    vf_havoc(0);
    size_t fsz = nondet_size_t();
    ASSUME(fsz <= FCAP);
    vf_attach(0, 3, fsz);
    for(size_t i = 0; i < FCAP; i++) IN_file[i] = vf_data0[i];
    IN_fsz = fsz; s.fsz = fsz;
    s.t = mk_target(NCH, DOFF - 1, 1);
    zckCtx *z = s.t.z;
    z->fd = 3;
    z->header_only = nondet_bool(); IN_honly = z->header_only;
    z->has_uncompressed_source = nondet_bool() ? 4 : 0; IN_unc = z->has_uncompressed_source;
    z->full_hash_digest = malloc(32);
    ASSUME(z->full_hash_digest != NULL);
    fill_nondet(z->full_hash_digest, 32);
    for(int i = 0; i < 32; i++) IN_full[i] = (unsigned char)z->full_hash_digest[i];
    unsigned char all[NCH * CMAX + 1]; size_t na = 0;
    s.allmatch = 1;
    for(size_t i = 0; i < NCH; i++) {
        zckChunk *c = s.t.c[i];
        ASSUME(c->comp_length <= CMAX);
        ASSUME(c->length <= 8 && (c->comp_length == 0) == (c->length == 0));   /* writer invariant: empty iff empty */
        ASSUME(i == 0 || c->comp_length > 0);                                   /* only the dictionary entry may be empty */
        c->valid = 0;
        s.len[i] = c->comp_length; IN_len[i] = c->comp_length;
        for(int k = 0; k < DSZ; k++) IN_dig[i][k] = (unsigned char)c->digest[k];
    }
    fix_starts(&s.t, NCH);
    /* history: the context may already have been read from / validated before - the running data digest is either absent or
     * live with arbitrary bytes absorbed, and the stream is anywhere */
    if(nondet_bool()) {
        bool hi = hash_init(z, &z->check_full_hash, &z->hash_type);
        ASSUME(hi);
        if(nondet_bool()) { char junk[2] = {nondet_char(), nondet_char()}; bool hu = hash_update(z, &z->check_full_hash, junk, 2); ASSUME(hu); }
    }
    vf_pos[0] = (long)(nondet_size_t() % (FCAP + 1));
    /* reference classification straight from the file bytes */
    for(size_t i = 0; i < NCH; i++) {
        zckChunk *c = s.t.c[i];
        size_t off = DOFF + c->start;
        s.present[i] = c->comp_length == 0 || off + c->comp_length <= fsz;   /* an empty chunk has no bytes to be present */
        unsigned char b[CMAX + 1], d[64];
        for(size_t k = 0; k < CMAX; k++) { b[k] = (off + k < FCAP && k < c->comp_length) ? vf_data0[off + k] : 0; if(k < c->comp_length && na < sizeof all) all[na++] = b[k]; }
        model_digest(CHT, b, c->comp_length, d);
        if(c->comp_length == 0) for(int k = 0; k < DSZ; k++) d[k] = 0;          /* format: the empty dictionary has an all-zero digest */
        int eq = 1;
        for(int k = 0; k < DSZ; k++) if(d[k] != (unsigned char)c->digest[k]) eq = 0;
        /* the empty dictionary entry is valid by definition (format: its digest is all zeros; the library does not compare it) */
        s.match[i] = (i == 0 && c->comp_length == 0) ? 1 : (s.present[i] && eq);
        if(!s.match[i]) s.allmatch = 0;
    }
    unsigned char fd[64];
    model_digest(ZCK_HASH_SHA256, all, na, fd);
    s.fullmatch = 1;
    for(int k = 0; k < 32; k++) if(fd[k] != (unsigned char)z->full_hash_digest[k]) s.fullmatch = 0;
    return s;
}

static zckComp comp_before;
static void post_common(scn_t *s, const unsigned char *before) {
    zckCtx *z = s->t.z;
    /* everything a later zck_read depends on besides the stream position and the running digest is untouched */
    OBLIGE(z->comp.started == comp_before.started && z->comp.data == comp_before.data && z->comp.data_size == comp_before.data_size &&
           z->comp.data_loc == comp_before.data_loc && z->comp.data_idx == comp_before.data_idx && z->comp.data_eof == comp_before.data_eof &&
           z->comp.dc_data == comp_before.dc_data && z->comp.dc_data_size == comp_before.dc_data_size &&
           z->comp.dc_data_loc == comp_before.dc_data_loc && z->comp.dict == comp_before.dict, "C09/reader-state-untouched-by-validation");
    OBLIGE(vf_nwrite[0] == 0 && vf_ntrunc[0] == 0, "C09/scan-never-writes-or-truncates-the-file");
    int same = 1;
    for(size_t i = 0; i < FCAP; i++) if(vf_data0[i] != before[i]) same = 0;
    OBLIGE(same && vf_size[0] == s->fsz, "C09/file-bytes-unchanged");
    OBLIGE(!hm_overflow, "C09/model-capacity");
}

#ifdef H_h09a
void h09a(void) {
    scn_t s = setup();
    zckCtx *z = s.t.z;
    unsigned char before[FCAP];
    for(size_t i = 0; i < FCAP; i++) before[i] = vf_data0[i];
    comp_before = z->comp;
#ifdef FAULTS
    vf_fault_mode = 1;          /* C12: any read / lseek may fail or be short */
#endif
    int r = nondet_bool() ? zck_find_valid_chunks(z) : zck_validate_checksums(z);
#ifdef FAULTS
    /* under faults only soundness is demanded: nothing is reported valid that is not */
    OBLIGE(vf_nwrite[0] == 0 && vf_ntrunc[0] == 0, "C12/scan-never-writes");
    for(size_t i = 0; i < NCH; i++) OBLIGE(s.t.c[i]->valid != 1 || s.match[i], "C12/chunk-marked-valid-only-if-its-bytes-are-there-and-match");
    if(!z->header_only && r == 1) {
        for(size_t i = 0; i < NCH; i++) OBLIGE(s.match[i], "C12/overall-success-only-if-every-chunk-matches");
        OBLIGE(z->has_uncompressed_source || s.fullmatch, "C12/overall-success-only-if-the-data-digest-matches");
    }
    if(vf_faults > 0) WITNESS("h12v-with-faults"); else WITNESS("h12v-no-fault");
    return;
#else
    post_common(&s, before);
    OBLIGE(r != 0 && z->error_state == 0, "C09/scan-of-an-opened-file-does-not-error");
    if(r != 0) {
        if(z->header_only) {
            /* detached header: only the dictionary is scanned */
            int d_ok = (s.t.c[0]->length == 0) || s.match[0];
            OBLIGE(s.t.c[0]->valid == (d_ok ? 1 : -1), "C09/detached-header-dictionary-classified-exactly");
            for(size_t i = 1; i < NCH; i++) OBLIGE(s.t.c[i]->valid == 0, "C09/detached-header-other-chunks-untouched");
            OBLIGE(r == (d_ok ? 1 : -1), "C09/detached-header-verdict");
        } else {
            int all = 1;
            for(size_t i = 0; i < NCH; i++) if(!s.match[i]) all = 0;
            int data_ok = z->has_uncompressed_source ? 1 : s.fullmatch;
            for(size_t i = 0; i < NCH; i++) {
                int expect = (s.match[i] && !(all && !data_ok)) ? 1 : -1;
                OBLIGE(s.t.c[i]->valid != 1 || s.present[i], "C09/valid-chunk-has-all-its-bytes-in-the-file");
                OBLIGE(s.t.c[i]->valid == expect, "C09/chunk-valid-exactly-when-stored-bytes-hash-to-index-digest");
            }
            OBLIGE(r == ((all && data_ok) ? 1 : -1), "C09/overall-success-only-when-every-chunk-and-data-digest-match");
        }
        OBLIGE(vf_pos[0] == (long)z->data_offset, "C09/scan-leaves-stream-at-start-of-data");
        OBLIGE(z->check_full_hash.ctx != NULL && hm_ctx_len(z->check_full_hash.ctx) == 0, "C09/scan-leaves-a-fresh-running-data-digest");
        if(r == 1) WITNESS("h09a-allvalid"); else WITNESS("h09a-some-invalid");
    }
#endif
}
#endif

#ifdef H_h09b
void h09b(void) {
    scn_t s = setup();
    zckCtx *z = s.t.z;
    ASSUME(!z->has_uncompressed_source);            /* with that flag the call is the scan of h09a */
    unsigned char before[FCAP];
    for(size_t i = 0; i < FCAP; i++) before[i] = vf_data0[i];
    comp_before = z->comp;
#ifdef FAULTS
    vf_fault_mode = 1;
#endif
    int r = zck_validate_data_checksum(z);
#ifdef FAULTS
    {
        int complete_f = 1;
        for(size_t i = 0; i < NCH; i++) if(!s.present[i]) complete_f = 0;
        OBLIGE(r != 1 || (complete_f && s.fullmatch), "C12/data-digest-reported-valid-only-if-every-byte-is-there-and-the-digest-matches");
        OBLIGE(vf_nwrite[0] == 0 && vf_ntrunc[0] == 0, "C12/validation-never-writes");
        if(r == 1) WITNESS("h12d-valid"); else WITNESS("h12d-invalid");
        return;
    }
#else
    post_common(&s, before);
    int complete = 1;
    for(size_t i = 0; i < NCH; i++) if(!s.present[i]) complete = 0;
    OBLIGE(r != 1 || complete, "C09/data-digest-verdict-valid-only-if-every-byte-is-in-the-file");
    if(r != 0) {
        if(complete) OBLIGE(r == (s.fullmatch ? 1 : -1), "C09/data-digest-verdict-exact");
        for(size_t i = 0; i < NCH; i++) OBLIGE(s.t.c[i]->valid == 0, "C09/data-validation-does-not-touch-chunk-marks");
        OBLIGE(vf_pos[0] == (long)z->data_offset, "C09/data-validation-leaves-stream-at-start-of-data");
        OBLIGE(z->check_full_hash.ctx != NULL && hm_ctx_len(z->check_full_hash.ctx) == 0, "C09/data-validation-leaves-a-fresh-running-digest");
        if(r == 1) WITNESS("h09b-valid"); else WITNESS("h09b-invalid");
    }
#endif
}
#endif
