/* C12 - I/O failures are reported.  Real code: src/lib/io.c (write_data, read_data, seek_data, chunks_from_temp).
 * env/files.c in fault mode: every read/write/lseek may return -1 (EIO/ENOSPC/EINTR) or a short count. */
#include "common.h"
#ifndef NB
#define NB 4
#endif
size_t IN_n, IN_pos; unsigned char IN_data[NB];
#ifdef H_h12w
void h12w(void) {
    zckCtx *z = mk_ctx(ZCK_MODE_WRITE);
    vf_havoc(0);
    size_t fsz = nondet_size_t(), pos = nondet_size_t(), n = nondet_size_t();
    ASSUME(fsz <= FCAP && pos <= fsz && n <= NB && pos + n <= FCAP);
    vf_attach(0, 3, fsz);
    vf_pos[0] = (long)pos;
    char *d = malloc(n ? n : 1);
    ASSUME(d != NULL);
    for(size_t i = 0; i < NB; i++) if(i < n) { d[i] = nondet_char(); IN_data[i] = (unsigned char)d[i]; }
    IN_n = n; IN_pos = pos;
    unsigned char before[FCAP];
    for(size_t i = 0; i < FCAP; i++) before[i] = vf_data0[i];
    vf_fault_mode = 1;
    int ok = write_data(z, 3, d, n);
    if(ok) {
        for(size_t i = 0; i < NB; i++) if(i < n) OBLIGE(vf_data0[pos + i] == (unsigned char)d[i], "C12/write-reported-complete-only-if-every-byte-reached-the-file-in-order");
        OBLIGE(vf_pos[0] == (long)(pos + n) && vf_size[0] >= pos + n, "C12/write-reported-complete-only-if-the-stream-advanced-by-the-full-length");
        for(size_t i = 0; i < FCAP; i++) if(i < pos) OBLIGE(vf_data0[i] == before[i], "C12/write-does-not-touch-earlier-bytes");
        OBLIGE(z->error_state == 0, "C12/successful-write-leaves-no-error");
        if(vf_faults > 0) WITNESS("h12w-ok-after-short-write"); else WITNESS("h12w-ok");
    } else {
        OBLIGE(n == 0 || z->error_state > 0, "C12/failed-write-sets-the-error-state");
        WITNESS("h12w-fail");
    }
}
#endif
#ifdef H_h12t
/* zck_close's last step: copy the temp file to the output */
void h12t(void) {
    zckCtx *z = mk_ctx(ZCK_MODE_WRITE);
    vf_havoc(0); vf_havoc(2);
    size_t tsz = nondet_size_t(), opos = nondet_size_t();
    ASSUME(tsz <= FCAP && opos <= 2 && opos + tsz <= FCAP);
    vf_attach(0, 3, opos); vf_pos[0] = (long)opos;      /* output: header already written */
    vf_attach(2, 5, tsz);
    z->fd = 3; z->temp_fd = 5;
    IN_n = tsz; IN_pos = opos;
    vf_fault_mode = 1;
    int ok = chunks_from_temp(z);
    if(ok) {
        OBLIGE(vf_size[0] == opos + tsz, "C12/close-reports-success-only-if-the-whole-body-reached-the-output");
        for(size_t i = 0; i < FCAP; i++) if(i < tsz) OBLIGE(vf_data0[opos + i] == vf_data2[i], "C12/body-bytes-in-the-output-equal-the-temp-file");
        if(vf_faults > 0) WITNESS("h12t-ok-with-faults"); else WITNESS("h12t-ok");
    } else {
        WITNESS("h12t-fail");
    }
}
#endif
