/* C13 getters: every zck_get_* / zck_get_chunk_* on an arbitrary opened context returns the stored field. */
#include "ctxbuild.h"
#include <stdarg.h>
#include <stdio.h>
/* exact model of the one format get_digest_string uses */
int v_fmt_bad;
int snprintf(char *s, size_t n, const char *fmt, ...) {
    va_list ap; va_start(ap, fmt);
    static const char hx[] = "0123456789abcdef";
    __CPROVER_assert(n == 0 || __CPROVER_w_ok(s, n), "ENV/snprintf: destination writable for the stated size");
    if(fmt[0] == '0' && fmt[1] == '0' && fmt[2] == 0) { if(n >= 3) { s[0] = '0'; s[1] = '0'; s[2] = 0; } else v_fmt_bad = 1; va_end(ap); return 2; }
    if(!(fmt[0] == '%' && fmt[1] == '0' && fmt[2] == '2' && fmt[3] == 'x' && fmt[4] == 0) || n < 3) { v_fmt_bad = 1; va_end(ap); return 0; }
    /* CBMC keeps the argument's own type (unsigned char) in the va_arg slot - no default promotion */
    unsigned char vi = va_arg(ap, unsigned char); va_end(ap);
    unsigned v = (unsigned)vi;
    if(v > 255) v_fmt_bad = 1;
    s[0] = hx[(v >> 4) & 15]; s[1] = hx[v & 15]; s[2] = 0;
    return 2;
}
static int hexcmp(const char *str, const char *d, int n) {
    static const char hx[] = "0123456789abcdef";
    if(str == NULL) return 0;
    for(int i = 0; i < n; i++) if(str[2 * i] != hx[((unsigned char)d[i]) >> 4] || str[2 * i + 1] != hx[((unsigned char)d[i]) & 15]) return 0;
    return str[2 * n] == 0;
}
void h13g(void) {
    size_t n = nondet_size_t();
    ASSUME(n >= 1 && n <= NCH);
    size_t lead = nondet_size_t(), hlen = nondet_size_t();
    ASSUME(lead >= 23 && lead <= 89 && hlen <= ((size_t)1 << 40));
    tgt_t t = mk_target(n, lead, hlen);
    zckCtx *z = t.z;
    for(size_t i = 0; i < NCH; i++) if(i < n) ASSUME(t.c[i]->comp_length <= ((size_t)1 << 61));
    fix_starts(&t, n);
    z->header_only = nondet_bool();
    z->has_optional_elems = nondet_bool() ? 2 : 0; z->has_uncompressed_source = 0;
    z->full_hash_digest = malloc(32); z->header_digest = malloc(32);
    ASSUME(z->full_hash_digest && z->header_digest);
    fill_nondet(z->full_hash_digest, 32); fill_nondet(z->header_digest, 32);
    OBLIGE((size_t)zck_get_lead_length(z) == lead, "C13/get-lead-length");
    OBLIGE((size_t)zck_get_header_length(z) == lead + hlen, "C13/get-header-length");
    size_t dl = t.c[n - 1]->start + t.c[n - 1]->comp_length;
    OBLIGE((size_t)zck_get_data_length(z) == dl, "C13/get-data-length-is-sum-of-stored-sizes");
    OBLIGE((size_t)zck_get_length(z) == lead + hlen + dl, "C13/get-total-length");
    OBLIGE(zck_get_flags(z) == (z->has_optional_elems ? 2 : 0), "C13/get-flags");
    OBLIGE(zck_is_detached_header(z) == z->header_only, "C13/get-detached");
    OBLIGE(zck_get_full_hash_type(z) == ZCK_HASH_SHA256 && zck_get_full_digest_size(z) == 32, "C13/get-full-hash-type");
    OBLIGE(zck_get_chunk_hash_type(z) == CHT && zck_get_chunk_digest_size(z) == DSZ, "C13/get-chunk-hash-type");
    OBLIGE(zck_get_chunk_count(z) == (ssize_t)n, "C13/get-chunk-count");
    char *s = zck_get_header_digest(z);
    OBLIGE(hexcmp(s, z->header_digest, 32), "C13/get-header-digest-string-is-hex-of-stored-bytes");
    s = zck_get_data_digest(z);
    OBLIGE(hexcmp(s, z->full_hash_digest, 32), "C13/get-data-digest-string-is-hex-of-stored-bytes");
    size_t k = 0;
    for(zckChunk *c = zck_get_first_chunk(z); c; c = zck_get_next_chunk(c)) {
        OBLIGE(k < n && c == t.c[k], "C13/iteration-order");
        if(k >= n) break;
        OBLIGE(zck_get_chunk(z, k) == c, "C13/get-chunk-by-number");
        OBLIGE((size_t)zck_get_chunk_number(c) == k, "C13/get-chunk-number");
        OBLIGE((size_t)zck_get_chunk_start(c) == lead + hlen + c->start, "C13/get-chunk-start-is-header-plus-running-sum");
        OBLIGE((size_t)zck_get_chunk_comp_size(c) == c->comp_length && (size_t)zck_get_chunk_size(c) == c->length, "C13/get-chunk-sizes");
        OBLIGE(zck_get_chunk_valid(c) == c->valid, "C13/get-chunk-valid");
        char *ds = zck_get_chunk_digest(c);
        OBLIGE(hexcmp(ds, c->digest, DSZ), "C13/get-chunk-digest-string-is-hex-of-stored-bytes");
        k++;
    }
    OBLIGE(k == n, "C13/iteration-reaches-every-chunk");
    OBLIGE(zck_get_chunk(z, n) == NULL, "C13/get-chunk-beyond-count-is-null");
    OBLIGE(!v_fmt_bad, "C13/digest-string-format");
    WITNESS("h13g-end");
}
