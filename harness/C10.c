/* C10 - missing-range requests.  Real code: src/lib/dl/range.c (zck_get_missing_range, range_add, range_insert_new,
 * range_merge_combined, range_remove, zck_get_range_char, zck_get_range_count, zck_range_free),
 * src/lib/index/index_create.c (index_new_chunk, finish_chunk), index_common.c, header.c (zck_get_header_length). */
#include "ctxbuild.h"
#include <string.h>

#if defined(H_h10a) || defined(H_h10b)
#ifndef SZMAX
#define SZMAX ((size_t)1 << 20)
#endif
int IN_n, IN_limit; size_t IN_hdr; size_t IN_len[NCH]; int IN_valid[NCH];

static void check_request(tgt_t *t, size_t n, int limit, zckRange *r, int allow_empty_chunks) {
    /* ---- collect the produced range list and range index ---- */
    size_t rs[NCH + 1], re[NCH + 1]; size_t nr = 0;
    zckRangeItem *it = r->first;
    for(size_t k = 0; k <= NCH; k++) if(it) { rs[nr] = it->start; re[nr] = it->end; nr++; it = it->next; }
    OBLIGE(it == NULL, "C10/range-list-no-longer-than-chunk-count");
    /* entries for a missing chunk without bytes (empty dictionary) carry nothing to fetch: an implementation may list
     * them or not; they are skipped here and everything else must be exact */
    zckChunk *ri[NCH + 1]; size_t ni = 0, nempty = 0;
    zckChunk *ic = r->index.first;
    for(size_t k = 0; k <= NCH; k++) if(ic) {
        if(allow_empty_chunks && ic->src == t->c[0] && ic->comp_length == 0) nempty++; else ri[ni++] = ic;
        ic = ic->next;
    }
    OBLIGE(ic == NULL, "C10/range-index-no-longer-than-chunk-count");

    /* ---- covered chunks: the range index must be a prefix (in file order) of the missing chunks ---- */
    size_t nmiss = 0, k = 0; int prefix_ok = 1;
    size_t covered_bytes = 0;
    int cov[NCH];
    for(size_t i = 0; i < NCH; i++) {
        cov[i] = 0;
        if(i < n && t->c[i]->valid == 0 && t->c[i]->comp_length > 0) {
            nmiss++;
            if(k < ni) {
                zckChunk *e = ri[k];
                if(e->src != t->c[i]) prefix_ok = 0;
                OBLIGE(e->src != t->c[i] || (e->comp_length == t->c[i]->comp_length), "C10/range-index-entry-has-stored-size");
                OBLIGE(e->src != t->c[i] || e->start == covered_bytes, "C10/range-index-entry-offset-is-position-in-concatenated-payload");
                OBLIGE(e->src != t->c[i] || memcmp(e->digest, t->c[i]->digest, DSZ) == 0, "C10/range-index-entry-has-chunk-digest");
                cov[i] = 1; covered_bytes += t->c[i]->comp_length;
                k++;
            }
        }
    }
    OBLIGE(prefix_ok, "C10/range-index-lists-a-prefix-of-the-missing-chunks-in-file-order");
    OBLIGE(ni <= nmiss, "C10/range-index-only-missing-chunks");
    OBLIGE(nmiss == 0 || ni >= 1, "C10/at-least-one-chunk-requested-when-any-missing");
    if(limit < 0) OBLIGE(ni == nmiss, "C10/unlimited-request-covers-every-missing-chunk");
    OBLIGE(r->index.count == ni + nempty, "C10/range-index-count");

    /* ---- the list: count, order, separation ---- */
    OBLIGE((size_t)zck_get_range_count(r) == nr, "C10/range-count-equals-number-of-ranges");
    if(limit >= 0) OBLIGE(nr <= (size_t)(limit > 1 ? limit : 1), "C10/never-more-ranges-than-max-limit-1");
    size_t range_bytes = 0;
    for(size_t j = 0; j <= NCH; j++) if(j < nr) {
        OBLIGE(allow_empty_chunks || rs[j] <= re[j], "C10/range-start-not-after-end");
        if(j + 1 < nr) OBLIGE(re[j] + 1 < rs[j + 1], "C10/ranges-ascending-disjoint-non-adjacent");
        range_bytes += re[j] - rs[j] + 1;
        /* each range begins at the first byte of a covered chunk and ends at the last byte of a covered chunk */
        int b = 0, e = 0;
        for(size_t i = 0; i < NCH; i++) if(i < n && cov[i] && t->c[i]->comp_length > 0) {
            if(rs[j] == t->hdr + t->c[i]->start) b = 1;
            if(re[j] == t->hdr + t->c[i]->start + t->c[i]->comp_length - 1) e = 1;
        }
        OBLIGE(allow_empty_chunks || (b && e), "C10/range-begins-and-ends-on-covered-chunk-boundaries");
        OBLIGE(rs[j] >= t->hdr, "C10/range-never-touches-the-header");
    }
    /* each covered chunk lies inside one range; disjoint ranges with the same total size => union is exactly the
     * covered extents, hence no byte of a valid chunk or of the header is requested */
    for(size_t i = 0; i < NCH; i++) if(i < n && cov[i] && t->c[i]->comp_length > 0) {
        size_t s = t->hdr + t->c[i]->start, e = s + t->c[i]->comp_length - 1;
        int in = 0;
        for(size_t j = 0; j <= NCH; j++) if(j < nr && rs[j] <= s && e <= re[j]) in = 1;
        OBLIGE(in, "C10/every-covered-chunk-extent-inside-one-range");
    }
    if(!allow_empty_chunks) OBLIGE(range_bytes == covered_bytes, "C10/requested-bytes-equal-covered-chunk-bytes");
}
#endif

#ifdef H_h10a
void h10a(void) {
    size_t n = nondet_size_t();
    ASSUME(n <= NCH);
    size_t lead = nondet_size_t(), hlen = nondet_size_t();
    ASSUME(lead >= 23 && lead <= 89 && hlen >= 1 && hlen <= SZMAX);
    tgt_t t = mk_target(n, lead, hlen);
    for(size_t i = 0; i < NCH; i++) if(i < n) {
        ASSUME(t.c[i]->comp_length >= 1 && t.c[i]->comp_length <= SZMAX);
        ASSUME(t.c[i]->valid == 0 || t.c[i]->valid == 1);
        IN_len[i] = t.c[i]->comp_length; IN_valid[i] = t.c[i]->valid;
    }
    fix_starts(&t, n);
    int limit = nondet_int();
    IN_n = (int)n; IN_limit = limit; IN_hdr = t.hdr;
    zckRange *r = zck_get_missing_range(t.z, limit);
    OBLIGE(r != NULL, "C10/request-computed");
    ASSUME(r != NULL);
    OBLIGE(t.z->error_state == 0, "C10/no-error-raised");
    check_request(&t, n, limit, r, 0);
    /* the target's own index is untouched */
    for(size_t i = 0; i < NCH; i++) if(i < n)
        OBLIGE(t.c[i]->comp_length == IN_len[i] && t.c[i]->valid == IN_valid[i] && t.c[i]->next == (i + 1 < n ? t.c[i + 1] : NULL),
               "C10/target-index-unchanged");
    zck_range_free(&r);
    OBLIGE(r == NULL, "C10/range-freed");
    WITNESS("h10a-end");
}
#endif

#ifdef H_h10b
/* zero-length chunks (an empty dictionary entry that is marked missing) among the others */
void h10b(void) {
    size_t n = nondet_size_t();
    ASSUME(n >= 1 && n <= NCH);
    size_t lead = nondet_size_t(), hlen = nondet_size_t();
    ASSUME(lead >= 23 && lead <= 89 && hlen >= 1 && hlen <= SZMAX);
    tgt_t t = mk_target(n, lead, hlen);
    for(size_t i = 0; i < NCH; i++) if(i < n) {
        ASSUME(t.c[i]->comp_length <= SZMAX);
        ASSUME(i == 0 || t.c[i]->comp_length >= 1);       /* only the dictionary entry may be empty */
        ASSUME(t.c[i]->valid == 0 || t.c[i]->valid == 1);
        IN_len[i] = t.c[i]->comp_length; IN_valid[i] = t.c[i]->valid;
    }
    ASSUME(t.c[0]->comp_length == 0);
    fix_starts(&t, n);
    int limit = nondet_int();
    IN_n = (int)n; IN_limit = limit; IN_hdr = t.hdr;
    zckRange *r = zck_get_missing_range(t.z, limit);
    OBLIGE(r != NULL, "C10/request-computed");
    ASSUME(r != NULL);
    check_request(&t, n, limit, r, 1);
    /* an empty chunk has no bytes: every range that is produced must still be well formed and made of real bytes */
    size_t bytes = 0, want = 0;
    for(zckRangeItem *it = r->first; it; it = it->next) {
        OBLIGE(it->start <= it->end, "C10/empty-chunk-yields-no-inverted-range");
        bytes += it->end - it->start + 1;
    }
    for(zckChunk *c = r->index.first; c; c = c->next) want += c->comp_length;
    OBLIGE(bytes == want, "C10/empty-chunk-requested-bytes-equal-covered-chunk-bytes");
    WITNESS("h10b-end");
}
#endif

#ifdef H_h10c
/* exact model of snprintf for the one format zck_get_range_char uses; values < 10^RD digits */
#include <stdarg.h>
#include <stdio.h>
#ifndef RD
#define RD 3
#endif
#define VLIM (RD == 3 ? 1000u : RD == 4 ? 10000u : RD == 2 ? 100u : 10u)
static int dec(unsigned v, char *o) {      /* v < 10^4; returns number of digits */
    int n = 0; unsigned d3 = v / 1000, d2 = (v / 100) % 10, d1 = (v / 10) % 10, d0 = v % 10;
    if(d3) o[n++] = (char)('0' + d3);
    if(d3 || d2) o[n++] = (char)('0' + d2);
    if(d3 || d2 || d1) o[n++] = (char)('0' + d1);
    o[n++] = (char)('0' + d0);
    return n;
}
int v_fmt_bad;
int snprintf(char *s, size_t n, const char *fmt, ...) {
    va_list ap; va_start(ap, fmt);
    unsigned long long a = va_arg(ap, unsigned long long), b = va_arg(ap, unsigned long long);
    va_end(ap);
    if(fmt[0] != '%' || fmt[1] != 'l' || fmt[4] != '-' || fmt[5] != '%' || fmt[9] != ',' || fmt[10] != 0 || a >= VLIM || b >= VLIM) v_fmt_bad = 1;
    char tmp[12]; int l = 0;
    l += dec((unsigned)a, tmp + l); tmp[l++] = '-'; l += dec((unsigned)b, tmp + l); tmp[l++] = ',';
    if(n > 0) {
        __CPROVER_assert(__CPROVER_w_ok(s, n), "ENV/snprintf: destination writable for the stated size");
        if(pa_is_managed(s))
            __CPROVER_assert(__CPROVER_POINTER_OFFSET(s) + n <= pa_size_of(s), "C10/range-string-snprintf-stays-inside-the-buffer-it-was-given");
        for(int i = 0; i < 12; i++) if(i < l && (size_t)i + 1 < n) s[i] = tmp[i];
        s[(size_t)l < n - 1 ? (size_t)l : n - 1] = 0;
    }
    return l;
}
#ifndef NR
#define NR 3
#endif
size_t IN_rs[NR], IN_re[NR]; int IN_nr;
void h10c(void) {
    zckCtx *z = mk_ctx(ZCK_MODE_READ);
    zckRange *r = calloc(1, sizeof(zckRange));
    ASSUME(r != NULL);
    int nr = nondet_int();
    ASSUME(nr >= 0 && nr <= NR);
    IN_nr = nr;
    zckRangeItem *prev = NULL;
    char ref[NR * 12 + 2]; int rl = 0;
    size_t last_end = 0;
    for(int j = 0; j < NR; j++) if(j < nr) {
        zckRangeItem *it = calloc(1, sizeof(zckRangeItem));
        ASSUME(it != NULL);
        it->start = nondet_size_t(); it->end = nondet_size_t();
        ASSUME(it->start <= it->end && it->end < VLIM);
        ASSUME(j == 0 || it->start > last_end + 1);
        last_end = it->end;
        IN_rs[j] = it->start; IN_re[j] = it->end;
        it->prev = prev;
        if(prev) prev->next = it; else r->first = it;
        prev = it;
        if(j > 0) ref[rl++] = ',';
        rl += dec((unsigned)it->start, ref + rl); ref[rl++] = '-'; rl += dec((unsigned)it->end, ref + rl);
    }
    ref[rl] = 0;
    r->count = (unsigned)nr;
    char *out = zck_get_range_char(z, r);
    OBLIGE(!v_fmt_bad, "C10/range-string-format");
    OBLIGE(out != NULL, "C10/range-string-produced");
    ASSUME(out != NULL);
    /* compare as C strings: rendered text is exactly the comma separated start-end list */
    int same = 1, ended = 0;
    for(int i = 0; i < NR * 12 + 2; i++) if(!ended) {
        OBLIGE(__CPROVER_r_ok(out + i, 1) && (!pa_is_managed(out) || (size_t)i < pa_size_of(out)), "C10/range-string-terminated-inside-its-allocation");
        if(out[i] != ref[i]) same = 0;
        if(out[i] == 0 || ref[i] == 0) ended = 1;
    }
    OBLIGE(same, "C10/range-string-is-comma-separated-start-end-list");
    OBLIGE(!pa_over, "C10/range-string-buffer-within-model-capacity");
    if(nr == 0) WITNESS("h10c-empty"); else if(nr == NR) WITNESS("h10c-full"); else WITNESS("h10c-some");
}
#endif
