/* C08 - local chunk reuse.  Real code: src/lib/dl/dl.c (zck_copy_chunks, write_and_verify_chunk, zero_chunk,
 * zck_find_matching_chunks), index_read.c (zck_generate_hashdb), hash.c, io.c.  Two opened contexts built directly
 * (source on file 0, target on file 1), arbitrary indexes and arbitrary file contents / lengths on both sides. */
#include "ctxbuild.h"
#include <string.h>
#ifndef DOFF
#define DOFF 2
#endif
#ifndef CMAX
#define CMAX 3
#endif
size_t IN_sfsz, IN_tfsz; unsigned char IN_sfile[FCAP], IN_tfile[FCAP];
size_t IN_slen[NCH], IN_tlen[NCH], IN_sulen[NCH], IN_tulen[NCH]; int IN_tvalid[NCH]; unsigned char IN_sdig[NCH][DSZ], IN_tdig[NCH][DSZ];

static tgt_t mk_side(int k, int fd, size_t *fszp) {
    if(k == 0) vf_havoc(0); else vf_havoc(1);
    size_t fsz = nondet_size_t();
    ASSUME(fsz <= FCAP);
    vf_attach(k, fd, fsz);
    *fszp = fsz;
    tgt_t t = mk_target(NCH, DOFF - 1, 1);
    t.z->fd = fd;
    for(size_t i = 0; i < NCH; i++) {
        ASSUME(t.c[i]->comp_length >= 1 && t.c[i]->comp_length <= CMAX && t.c[i]->length <= 7);
        t.c[i]->valid = 0;
    }
    fix_starts(&t, NCH);
    return t;
}

#ifdef H_h08a
void h08a(void) {
    size_t sfsz, tfsz;
    tgt_t S = mk_side(0, 3, &sfsz), T = mk_side(1, 4, &tfsz);
    /* the source may use another chunk digest type only if the sizes agree (the lookup key is the target's digest bytes) */
    for(size_t i = 0; i < NCH; i++) { int v = nondet_int(); ASSUME(v == 0 || v == 1 || v == -1); T.c[i]->valid = v; IN_tvalid[i] = v; }
    unsigned char sb[FCAP], tb[FCAP];
    for(size_t i = 0; i < FCAP; i++) { sb[i] = vf_data0[i]; tb[i] = vf_data1[i]; IN_sfile[i] = sb[i]; IN_tfile[i] = tb[i]; }
    IN_sfsz = sfsz; IN_tfsz = tfsz;
    for(size_t i = 0; i < NCH; i++) {
        IN_slen[i] = S.c[i]->comp_length; IN_tlen[i] = T.c[i]->comp_length; IN_sulen[i] = S.c[i]->length; IN_tulen[i] = T.c[i]->length;
        for(int k = 0; k < DSZ; k++) { IN_sdig[i][k] = (unsigned char)S.c[i]->digest[k]; IN_tdig[i][k] = (unsigned char)T.c[i]->digest[k]; }
    }
    bool hdb = zck_generate_hashdb(S.z);
    OBLIGE(hdb, "C08/source-hash-table-built");
#ifdef FAULTS
    vf_fault_mode = 1;          /* C12: every read / write / lseek on either file may fail or be short from here on */
#endif
    bool ok = zck_copy_chunks(S.z, T.z);
#ifndef FAULTS
    OBLIGE(ok, "C08/copy-returns");
#endif
    OBLIGE(!hm_overflow, "C08/model-capacity");
    /* source untouched */
    OBLIGE(vf_nwrite[0] == 0 && vf_ntrunc[0] == 0 && vf_size[0] == sfsz, "C08/source-file-never-written");
    int ssame = 1;
    for(size_t i = 0; i < FCAP; i++) if(vf_data0[i] != sb[i]) ssame = 0;
    OBLIGE(ssame, "C08/source-bytes-unchanged");
    /* per target chunk */
    unsigned char touched[FCAP];
    for(size_t i = 0; i < FCAP; i++) touched[i] = 0;
    for(size_t i = 0; i < NCH; i++) {
        zckChunk *c = T.c[i];
        /* is there a source chunk with the same digest, stored size and uncompressed size? */
        int cand = 0;
        for(size_t j = 0; j < NCH; j++)
            if(memcmp(S.c[j]->digest, c->digest, DSZ) == 0 && S.c[j]->comp_length == c->comp_length && S.c[j]->length == c->length) cand = 1;
        size_t off = DOFF + c->start;
        if(IN_tvalid[i] == 1) {
            OBLIGE(c->valid == 1, "C08/already-valid-chunk-stays-valid");
        } else if(!cand) {
            OBLIGE(c->valid == IN_tvalid[i], "C08/chunk-without-fully-matching-source-chunk-is-left-alone");
        } else {
            for(size_t k = 0; k < CMAX; k++) if(k < c->comp_length && off + k < FCAP) touched[off + k] = 1;
        }
        if(c->valid == 1 && IN_tvalid[i] != 1) {
            /* bytes now stored at its offset hash to the TARGET's index digest */
            unsigned char b[CMAX + 1], d[64];
            OBLIGE(off + c->comp_length <= vf_size[1], "C08/newly-valid-chunk-is-completely-in-the-target-file");
            for(size_t k = 0; k < CMAX; k++) b[k] = (k < c->comp_length && off + k < FCAP) ? vf_data1[off + k] : 0;
            model_digest(CHT, b, c->comp_length, d);
            int eq = 1;
            for(int k = 0; k < DSZ; k++) if(d[k] != (unsigned char)c->digest[k]) eq = 0;
            OBLIGE(eq, "C08/valid-only-if-stored-bytes-hash-to-the-target-index-digest");
            WITNESS("h08a-copied");
        }
        if(c->valid == -1 && IN_tvalid[i] != -1) {
            int z = 1;
            for(size_t k = 0; k < CMAX; k++) if(k < c->comp_length && off + k < FCAP && vf_data1[off + k] != 0) z = 0;
#ifndef FAULTS
            OBLIGE(z, "C08/failed-chunk-is-zero-filled");
#endif
            WITNESS("h08a-failed");
        }
    }
    /* confinement: every target byte outside the extents of the chunks that were filled is unchanged */
    for(size_t i = 0; i < FCAP; i++) if(!touched[i] && i < tfsz)
        OBLIGE(vf_data1[i] == tb[i], "C08/target-bytes-outside-the-filled-chunk-extents-unchanged");
}
#endif

#ifdef H_h08b
/* pure index matching */
void h08b(void) {
    size_t sfsz, tfsz;
    tgt_t S = mk_side(0, 3, &sfsz), T = mk_side(1, 4, &tfsz);
    int unc = nondet_bool();
    S.z->has_uncompressed_source = unc ? 4 : 0; T.z->has_uncompressed_source = nondet_bool() ? 4 : 0;
    S.z->comp.type = nondet_bool() ? ZCK_COMP_ZSTD : ZCK_COMP_NONE; T.z->comp.type = nondet_bool() ? ZCK_COMP_ZSTD : ZCK_COMP_NONE;
    for(size_t i = 0; i < NCH; i++) {
        S.c[i]->digest_uncompressed = malloc(DSZ); T.c[i]->digest_uncompressed = malloc(DSZ);
        ASSUME(S.c[i]->digest_uncompressed && T.c[i]->digest_uncompressed);
        fill_nondet(S.c[i]->digest_uncompressed, DSZ); fill_nondet(T.c[i]->digest_uncompressed, DSZ);
    }
    bool hdb = zck_generate_hashdb(S.z);
    ASSUME(hdb);
    bool ok = zck_find_matching_chunks(S.z, T.z);
    OBLIGE(ok, "C08/matching-returns");
    int same_comp = S.z->comp.type == T.z->comp.type;
    int both_unc = S.z->has_uncompressed_source && T.z->has_uncompressed_source;
    for(size_t i = 0; i < NCH; i++) {
        zckChunk *c = T.c[i];
        if(c->valid == 1) {
            zckChunk *f = c->src;
            OBLIGE(f != NULL && (f == S.c[0] || f == S.c[1]), "C08/matched-chunk-points-at-a-source-chunk");
            if(f == S.c[0] || f == S.c[1]) {
                OBLIGE(f->length == c->length, "C08/matched-pair-has-equal-uncompressed-length");
                if(same_comp) OBLIGE(memcmp(f->digest, c->digest, DSZ) == 0, "C08/matched-pair-has-equal-stored-digest");
                else OBLIGE(both_unc && memcmp(f->digest_uncompressed, c->digest_uncompressed, DSZ) == 0, "C08/matched-pair-has-equal-uncompressed-digest");
            }
            WITNESS("h08b-matched");
        }
    }
    OBLIGE(vf_nwrite[0] == 0 && vf_nwrite[1] == 0 && vf_nread[0] == 0 && vf_nread[1] == 0, "C08/matching-does-no-io");
}
#endif
