/* C05 - range reassembly.  Real code: src/lib/dl/dl.c (zck_write_chunk_cb, dl_write_range, dl_write, set_chunk_valid,
 * zero_chunk, zck_dl_init, zck_dl_set_range), hash.c (validate_chunk, hash_*), io.c.
 * Target = opened context built directly with NCH chunks on file 0; the range index lists the missing chunks in request
 * order (as zck_get_missing_range builds it, C10); the response body is delivered through the write callback in three
 * fragments whose cut points are symbolic (empty fragments included), i.e. every partition into <= 3 non-empty callbacks. */
#include "ctxbuild.h"
#include <string.h>
#ifndef DOFF
#define DOFF 2
#endif
#ifndef CMAX
#define CMAX 2
#endif
#define PMAX (NCH * CMAX)
size_t IN_fsz, IN_c1, IN_c2, IN_len[NCH]; int IN_valid[NCH]; unsigned char IN_file[FCAP], IN_pay[PMAX], IN_dig[NCH][DSZ];

#ifdef H_h05a
void h05a(void) {
    vf_havoc(0);
    size_t fsz = nondet_size_t();
    ASSUME(fsz >= DOFF && fsz <= FCAP);          /* the target holds at least its header */
    vf_attach(0, 3, fsz);
    tgt_t T = mk_target(NCH, DOFF - 1, 1);
    zckCtx *z = T.z;
    z->fd = 3;
    for(size_t i = 0; i < NCH; i++) {
        ASSUME(T.c[i]->comp_length >= 1 && T.c[i]->comp_length <= CMAX);
        ASSUME(T.c[i]->valid == 0 || T.c[i]->valid == 1);
        IN_len[i] = T.c[i]->comp_length; IN_valid[i] = T.c[i]->valid;
        for(int k = 0; k < DSZ; k++) IN_dig[i][k] = (unsigned char)T.c[i]->digest[k];
    }
    fix_starts(&T, NCH);
    ASSUME(DOFF + z->index.length <= FCAP);
    for(size_t i = 0; i < NCH; i++) if(T.c[i]->valid == 1) ASSUME(DOFF + T.c[i]->start + T.c[i]->comp_length <= fsz);   /* valid => present (C09) */
    unsigned char before[FCAP];
    for(size_t i = 0; i < FCAP; i++) { before[i] = vf_data0[i]; IN_file[i] = before[i]; }
    IN_fsz = fsz;
    /* range index: the missing chunks in file order, offsets = position in the concatenated payload */
    zckRange *r = calloc(1, sizeof(zckRange));
    ASSUME(r != NULL);
    zckChunk *prev = NULL; size_t P = 0, nreq = 0;
    size_t poff[NCH];
    for(size_t i = 0; i < NCH; i++) if(T.c[i]->valid == 0) {
        zckChunk *rc = calloc(1, sizeof(zckChunk));
        ASSUME(rc != NULL);
        rc->digest = malloc(DSZ); ASSUME(rc->digest != NULL);
        memcpy(rc->digest, T.c[i]->digest, DSZ);
        rc->digest_size = DSZ; rc->comp_length = T.c[i]->comp_length; rc->length = T.c[i]->comp_length;
        rc->start = P; rc->src = T.c[i]; rc->zck = z; rc->number = nreq;
        poff[i] = P; P += T.c[i]->comp_length; nreq++;
        if(prev) prev->next = rc; else r->index.first = rc;
        prev = rc; r->index.last = rc;
    }
    r->index.count = nreq; r->index.digest_size = DSZ;
    ASSUME(nreq >= 1);
    unsigned char pay[PMAX];
    for(size_t i = 0; i < PMAX; i++) { pay[i] = nondet_uchar(); IN_pay[i] = pay[i]; }
    /* reference: chunks are accepted in order until the first one whose bytes do not hash to its index digest */
    int ok_i[NCH]; int first_bad = -1;
    for(size_t i = 0; i < NCH; i++) {
        ok_i[i] = 0;
        if(T.c[i]->valid == 0) {
            unsigned char b[CMAX + 1], d[64];
            for(size_t k = 0; k < CMAX; k++) b[k] = (k < T.c[i]->comp_length) ? pay[poff[i] + k] : 0;
            model_digest(CHT, b, T.c[i]->comp_length, d);
            int eq = 1;
            for(int k = 0; k < DSZ; k++) if(d[k] != (unsigned char)T.c[i]->digest[k]) eq = 0;
            ok_i[i] = eq;
            if(!eq && first_bad < 0) first_bad = (int)i;
        }
    }
    zckDL *dl = zck_dl_init(z);
    ASSUME(dl != NULL && dl->mp != NULL);
    zck_dl_set_range(dl, r);
    /* deliver: three fragments [0,c1) [c1,c2) [c2,P), stop at the first callback that signals an error */
    size_t c1 = nondet_size_t(), c2 = nondet_size_t();
    ASSUME(c1 <= c2 && c2 <= P);
    IN_c1 = c1; IN_c2 = c2;
    char *frag = malloc(PMAX);                      /* transport buffer, re-used as curl does */
    ASSUME(frag != NULL);
    size_t cut[4] = {0, c1, c2, P};
    int failed = 0;
    for(int f = 0; f < 3; f++) if(!failed) {
        size_t n = cut[f + 1] - cut[f];
        if(n == 0) continue;                     /* a transport splits the stream into non-empty pieces */
        for(size_t k = 0; k < PMAX; k++) frag[k] = (k < n) ? (char)pay[cut[f] + k] : (char)nondet_uchar();
        size_t ret = zck_write_chunk_cb(frag, 1, n, dl);
        if(ret != n) failed = 1;
    }
    OBLIGE(!hm_overflow, "C05/model-capacity");
    OBLIGE(failed == (first_bad >= 0), "C05/callback-reports-an-error-exactly-when-a-chunk-fails-its-checksum");
    for(size_t i = 0; i < NCH; i++) {
        zckChunk *c = T.c[i];
        size_t off = DOFF + c->start;
        if(IN_valid[i] == 1) {
            OBLIGE(c->valid == 1, "C05/already-valid-chunk-stays-valid");
            for(size_t k = 0; k < CMAX; k++) if(k < c->comp_length) OBLIGE(vf_data0[off + k] == before[off + k], "C05/already-valid-chunk-bytes-untouched");
        } else if(first_bad < 0 || (int)i < first_bad) {
            OBLIGE(c->valid == 1, "C05/requested-chunk-marked-valid-after-its-bytes-arrived");
            for(size_t k = 0; k < CMAX; k++) if(k < c->comp_length) OBLIGE(vf_data0[off + k] == pay[poff[i] + k], "C05/requested-chunk-bytes-at-its-file-offset");
        } else if((int)i == first_bad) {
            OBLIGE(c->valid == -1, "C05/chunk-failing-its-checksum-marked-failed");
            for(size_t k = 0; k < CMAX; k++) if(k < c->comp_length) OBLIGE(vf_data0[off + k] == 0, "C05/chunk-failing-its-checksum-zero-filled");
        } else {
            OBLIGE(c->valid == 0, "C05/chunks-after-the-failure-still-missing");
        }
    }
    for(size_t i = 0; i < DOFF; i++) OBLIGE(vf_data0[i] == before[i], "C05/header-bytes-never-modified");
    if(first_bad < 0) WITNESS("h05a-all-good"); else WITNESS("h05a-corrupt");
}
#endif
