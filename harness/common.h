/* Shared harness vocabulary: context construction, 128-bit reference compint decoder (from zchunk_format.txt). */
#ifndef H_COMMON_H
#define H_COMMON_H
#include "env.h"
#include "zck_private.h"
#include <stdlib.h>
#include <limits.h>

typedef unsigned __int128 u128;

static inline zckCtx *mk_ctx(int mode) {
    zckCtx *z = calloc(1, sizeof(zckCtx));
    ASSUME(z != NULL);
    z->prep_hash_type = -1;
    z->prep_hdr_size = -1;
    z->mode = mode;
    z->fd = -1;
    return z;
}

/* reference: exact value of the compressed integer starting at b[0] with avail bytes available.
 * 1 = well formed (terminated within min(avail,10) bytes), 0 = not */
static inline int ref_ci(const unsigned char *b, size_t avail, u128 *v, size_t *len) {
    u128 acc = 0;
    for(size_t k = 0; k < 10; k++) {
        if(k >= avail)
            return 0;
        unsigned c = b[k];
        acc |= ((u128)(c & 127)) << (7 * k);
        if(c & 128) {
            *v = acc;
            *len = k + 1;
            return 1;
        }
    }
    return 0;
}
/* fill a buffer with arbitrary bytes; own loop id (fill_nondet.0) so that harnesses can bound it separately */
static inline void fill_nondet(char *p, size_t n) { for(size_t k = 0; k < n; k++) p[k] = nondet_char(); }
static inline int ref_dsize(u128 t) { return t == 0 ? 20 : t == 1 ? 32 : t == 2 ? 64 : t == 3 ? 16 : -1; }
#endif
