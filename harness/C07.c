/* C07 - pinned header validation.  Real code: src/lib/zck.c (hex_to_int, ascii_checksum_to_bin, zck_set_soption,
 * zck_set_ioption), src/lib/header.c (read_lead, zck_read_lead, zck_validate_lead), compint.c, hash.c (hash_setup). */
#include "ref_lead.h"

#if defined(H_h07a) || defined(H_h07b)
/* static functions of zck.c are reached by including the real source */
#include "zck.c"
#endif

int IN_c;
#ifdef H_h07a
void h07a(void) {
    char c = nondet_char();
    IN_c = (unsigned char)c;
    int ref = (c >= '0' && c <= '9') ? c - '0' : (c >= 'a' && c <= 'f') ? c - 'a' + 10 : (c >= 'A' && c <= 'F') ? c - 'A' + 10 : -1;
    int got = hex_to_int(c);
    OBLIGE(got == ref, "C07/hex-digit-value-exact-and-nonhex-rejected");
    WITNESS("h07a-end");
}
#endif

#ifdef H_h07b
#define SMAX 130
size_t IN_len; int IN_type; unsigned char IN_str[SMAX];
static int hexval(unsigned char c) {
    return (c >= '0' && c <= '9') ? c - '0' : (c >= 'a' && c <= 'f') ? c - 'a' + 10 : (c >= 'A' && c <= 'F') ? c - 'A' + 10 : -1;
}
void h07b(void) {
    zckCtx *z = mk_ctx(ZCK_MODE_READ);
    int t = nondet_int();
    ASSUME(t >= -1 && t <= 5);
    size_t len = nondet_size_t();
    ASSUME(len <= SMAX);
    char *s = malloc(len ? len : 1);
    ASSUME(s != NULL);
    for(size_t i = 0; i < SMAX; i++) if(i < len) { s[i] = nondet_char(); IN_str[i] = (unsigned char)s[i]; }
    IN_len = len; IN_type = t;
    if(t >= 0) {
        bool okt = zck_set_ioption(z, ZCK_VAL_HEADER_HASH_TYPE, t);
        OBLIGE(okt, "C07/pin-type-accepted");
    }
    bool ok = zck_set_soption(z, ZCK_VAL_HEADER_DIGEST, s, len);
    int ds = ref_dsize((u128)(unsigned)t);
    int allhex = 1;
    for(size_t i = 0; i < SMAX; i++) if(i < len && hexval((unsigned char)s[i]) < 0) allhex = 0;
    int expect = t >= 0 && ds > 0 && len == (size_t)(2 * ds) && allhex;
    OBLIGE((ok != 0) == (expect != 0), "C07/digest-string-accepted-iff-type-set-length-exact-all-hex");
    if(ok) {
        OBLIGE(z->prep_digest != NULL, "C07/pinned-digest-stored");
        for(int i = 0; i < 64; i++) if(i < ds)
            OBLIGE((unsigned char)z->prep_digest[i] == (unsigned char)(hexval((unsigned char)s[2 * i]) * 16 + hexval((unsigned char)s[2 * i + 1])),
                   "C07/pinned-digest-bytes-equal-hex-value");
        /* order: type can no longer be changed once a digest is pinned */
        bool again = zck_set_ioption(z, ZCK_VAL_HEADER_HASH_TYPE, nondet_int() & 3);
        OBLIGE(!again, "C07/type-after-digest-refused");
        WITNESS("h07b-accept");
    } else {
        OBLIGE(z->prep_digest == NULL, "C07/rejected-digest-not-stored");
        WITNESS("h07b-reject");
    }
}
#endif

#if defined(H_h07c) || defined(H_h07d)
/* inputs mirrored for replay */
size_t IN_fsz; unsigned char IN_file[FCAP]; int IN_ptype; long IN_phdr; int IN_pdig_set; unsigned char IN_pdig[64];

static zckCtx *setup(unsigned char *fb, size_t *fszp) {
    vf_havoc(0);
    size_t fsz = nondet_size_t();
    ASSUME(fsz <= FCAP);
    vf_attach(0, 3, fsz);
    for(size_t i = 0; i < FCAP; i++) { fb[i] = vf_data0[i]; IN_file[i] = fb[i]; }
    IN_fsz = fsz; *fszp = fsz;
    zckCtx *z = mk_ctx(ZCK_MODE_READ);
    z->fd = 3;
    /* pins as the option setters leave them: type in -1..3; digest only with a type, exactly ds bytes; size -1 or >= 0 */
    int pt = nondet_int();
    ASSUME(pt >= -1 && pt <= 3);
    z->prep_hash_type = pt; IN_ptype = pt;
    IN_pdig_set = 0;
    if(pt >= 0 && nondet_bool()) {
        int pds = ref_dsize((u128)(unsigned)pt);
        z->prep_digest = malloc((size_t)pds);
        ASSUME(z->prep_digest != NULL);
        for(int i = 0; i < 64; i++) if(i < pds) { z->prep_digest[i] = nondet_char(); IN_pdig[i] = (unsigned char)z->prep_digest[i]; }
        IN_pdig_set = 1;
    }
    ssize_t ph = nondet_ssize_t();
    ASSUME(ph >= -1);
    z->prep_hdr_size = ph; IN_phdr = ph;
    return z;
}
static int ref_accept(zckCtx *z, const unsigned char *fb, size_t fsz, ref_lead_t *r) {
    *r = ref_lead(fb, fsz);
    if(!r->ok) return 0;
    if(z->prep_hash_type > -1 && z->prep_hash_type != r->htype) return 0;
    if(z->prep_digest) {
        for(int i = 0; i < 64; i++) if(i < r->ds && (unsigned char)z->prep_digest[i] != fb[r->digest_loc + i]) return 0;
    }
    if(z->prep_hdr_size > -1 && (u128)(size_t)z->prep_hdr_size != r->hlen + (u128)r->lead_size) return 0;
    return 1;
}
#endif

#ifdef H_h07c
void h07c(void) {
    unsigned char fb[FCAP]; size_t fsz;
    zckCtx *z = setup(fb, &fsz);
    ref_lead_t r;
    int expect = ref_accept(z, fb, fsz, &r);
    bool ok = zck_read_lead(z);
    OBLIGE((ok != 0) == (expect != 0), "C07/lead-accepted-iff-wellformed-and-equal-to-every-pin");
    if(ok) {
        OBLIGE(z->hash_type.type == r.htype && z->hash_type.digest_size == r.ds, "C07/lead-hash-type-stored");
        OBLIGE(z->header_length == (size_t)r.hlen, "C07/lead-header-length-stored");
        OBLIGE(z->hdr_digest_loc == r.digest_loc && z->lead_size == r.lead_size, "C07/lead-digest-location-stored");
        OBLIGE(z->header_only == (r.detached != 0), "C07/lead-detached-flag-stored");
        for(int i = 0; i < 64; i++) if(i < r.ds)
            OBLIGE((unsigned char)z->header_digest[i] == fb[r.digest_loc + i], "C07/lead-digest-bytes-stored");
        /* LeadInv (DESIGN 2.4): what the header stage (C06/C13/C03 harnesses) starts from */
        size_t hs = r.lead_size > MINLEAD ? r.lead_size : MINLEAD;
        OBLIGE(z->header_size == hs && __CPROVER_OBJECT_SIZE(z->header) == hs && z->lead_string == z->header, "C07/leadinv-buffer-is-the-bytes-read-so-far");
        for(size_t i = 0; i < FCAP; i++) if(i < hs)
            OBLIGE((unsigned char)z->header[i] == fb[i], "C07/leadinv-buffer-holds-the-file-bytes");
        OBLIGE(vf_pos[0] == (long)hs, "C07/leadinv-stream-position-after-the-bytes-read");
        WITNESS("h07c-accept");
    } else {
        WITNESS("h07c-reject");
    }
}
#endif

#ifdef H_h07d
void h07d(void) {
    unsigned char fb[FCAP]; size_t fsz;
    zckCtx *z = setup(fb, &fsz);
    bool v = zck_validate_lead(z);
    if(z->error_state == 0) {
        OBLIGE(vf_pos[0] == 0, "C07/validate-lead-leaves-stream-at-start");
        OBLIGE(z->header == NULL && z->header_digest == NULL && z->lead_size == 0 && z->header_length == 0 &&
               z->hdr_digest_loc == 0 && z->header_size == 0, "C07/validate-lead-leaves-context-clean");
        bool ok = zck_read_lead(z);
        OBLIGE((ok != 0) == (v != 0), "C07/validate-lead-same-verdict-as-read-lead");
        if(ok) WITNESS("h07d-accept"); else WITNESS("h07d-reject");
    } else {
        OBLIGE(!v, "C07/validate-lead-true-implies-no-error");
    }
}
#endif
