/* C16: chunking is deterministic, content-defined and local.
 *  h16b-*  the rolling hash (real buzhash.c): its output is a function of the last W bytes only
 *          (fill phase from reset, and one inductive step from an arbitrary full-window state);
 *  h16w    the automatic branch of the real zck_write / zck_end_chunk (comp.c) with the real buzhash: the chunk lengths are the
 *          same for every segmentation of the same content into write calls, every ended chunk is within [auto_min, auto_max],
 *          bytes reach the codec in order;
 *  h16p    prefix locality: two contents sharing a prefix give the same chunks for every chunk ending before the first difference.
 * The codec (comp.compress / comp.end_cchunk) and the index bookkeeping (index_add_to_chunk / index_finish_chunk) are recorders:
 * what is decided is WHERE chunks end and WHICH bytes they get, not how they are stored (C06 h06w, C12 h12t, C20). */
#include "common.h"
#ifndef BW
#define BW 3
#endif
#if defined(H_h16b_fill) || defined(H_h16b_step)
#include "buzhash/buzhash.h"
extern const uint32_t buzhash_table[];
static uint32_t rrol(uint32_t v, unsigned s) { s &= 31; return s ? (v << s) | (v >> (32 - s)) : v; }
/* reference: BUZ(x[0..W-1]) = XOR_j rol(T[x[j]], W-1-j) */
static uint32_t ref_buz(const unsigned char *x) {
    uint32_t h = 0;
    for(unsigned j = 0; j < BW; j++) h ^= rrol(buzhash_table[x[j]], BW - 1 - j);
    return h;
}
#endif
#ifdef H_h16b_fill
#ifndef BK
#define BK 3
#endif
/* from a reset state feed BW+BK arbitrary bytes: output is 1 ("no decision") until the window is full, then the reference hash of
 * the last BW bytes; a reset in between starts over */
void h16b_fill(void) {
    buzHash b = {0};
    unsigned char s[BW + BK];
    for(unsigned k = 0; k < BW + BK; k++) s[k] = nondet_uchar();
    for(int round = 0; round < 2; round++) {
        for(unsigned t = 0; t < BW + BK; t++) {
            uint32_t out = 0;
            bool ok = buzhash_update(&b, (const char *)&s[t], BW, &out);
            OBLIGE(ok, "C16/rolling-hash-update-succeeds");
            if(t + 1 < BW) OBLIGE(out == 1, "C16/no-boundary-decision-before-the-window-is-full");
            else OBLIGE(out == ref_buz(&s[t + 1 - BW]), "C16/rolling-hash-is-a-function-of-the-last-W-bytes-only");
        }
        buzhash_reset(&b);
        OBLIGE(b.window == NULL, "C16/reset-discards-the-window");
        for(unsigned k = 0; k < BW + BK; k++) s[k] = nondet_uchar();
    }
    WITNESS("h16b-fill");
}
#endif
#ifdef H_h16b_step
/* inductive step: arbitrary full-window state (any rotation, any content, h = reference hash of the content in stream order);
 * one update re-establishes the invariant for the shifted window => output is local for histories of any length */
void h16b_step(void) {
    buzHash b = {0};
    unsigned char last[BW + 1];
    for(unsigned k = 0; k < BW + 1; k++) last[k] = nondet_uchar();
    size_t loc = nondet_size_t();
    ASSUME(loc < BW);
    b.window = calloc(1, BW);
    ASSUME(b.window != NULL);
    b.window_size = BW; b.window_fill = BW; b.window_loc = loc;
    for(unsigned j = 0; j < BW; j++) b.window[(loc + j) % BW] = (char)last[j];      /* oldest byte sits at window_loc */
    b.h = ref_buz(last);
    uint32_t out = 0;
    bool ok = buzhash_update(&b, (const char *)&last[BW], BW, &out);
    OBLIGE(ok, "C16/rolling-hash-update-succeeds");
    OBLIGE(out == ref_buz(last + 1) && b.h == out, "C16/rolling-hash-is-a-function-of-the-last-W-bytes-only");
    OBLIGE(b.window_size == BW && b.window_fill == BW && b.window_loc == (loc + 1) % BW, "C16/window-invariant-re-established");
    for(unsigned j = 0; j < BW; j++)
        OBLIGE((unsigned char)b.window[(b.window_loc + j) % BW] == last[1 + j], "C16/window-invariant-re-established");
    WITNESS("h16b-step");
}
#endif

#if defined(H_h16w) || defined(H_h16p)
#include "comp/comp.c"
#ifndef CN
#define CN 6
#endif
#ifndef AMIN
#define AMIN 2
#endif
#ifndef AMAX
#define AMAX 4
#endif
#ifndef BBITS
#define BBITS 9
#endif
#define RMAXN (CN + 2)
typedef struct { size_t n; size_t len[RMAXN]; size_t on; unsigned char out[CN + 1]; int over; } rec_t;
static rec_t *REC;
static ssize_t rec_compress(zckCtx *zck, zckComp *comp, const char *src, const size_t src_size, char **dst, size_t *dst_size, bool use_dict) {
    for(size_t k = 0; k < CN; k++) if(k < src_size) { if(REC->on < CN) REC->out[REC->on++] = (unsigned char)src[k]; else REC->over = 1; }
    if(src_size > CN) REC->over = 1;
    *dst = NULL; *dst_size = 0;
    return 0;
}
static bool rec_end_cchunk(zckCtx *zck, zckComp *comp, char **dst, size_t *dst_size, bool use_dict) {
    if(REC->n < RMAXN) REC->len[REC->n++] = comp->dc_data_size; else REC->over = 1;
    *dst = NULL; *dst_size = 0;
    return true;
}
bool index_add_to_chunk(zckCtx *zck, char *data, size_t comp_size, size_t orig_size) { return true; }
bool index_finish_chunk(zckCtx *zck) { return true; }
static zckCtx *mk_writer(void) {
    zckCtx *z = mk_ctx(ZCK_MODE_WRITE);
    z->comp.started = 1;
    z->comp.compress = rec_compress;
    z->comp.end_cchunk = rec_end_cchunk;
    z->no_write = 1;
    z->manual_chunk = 0;
    z->buzhash_width = BW;
    z->buzhash_match_bits = BBITS;
    update_buzhash_bits(z);
    z->chunk_auto_min = AMIN;
    z->chunk_auto_max = AMAX;
    z->chunk_min_size = 1;
    z->chunk_max_size = 4 * AMAX;
    return z;
}
#endif
#ifdef H_h16w
/* the same CN content bytes through (A) one call, (B) up to three calls with symbolic cut points, (C) one byte per call */
void h16w(void) {
    unsigned char x[CN];
    for(unsigned k = 0; k < CN; k++) x[k] = nondet_uchar();
    rec_t ra = {0}, rb = {0}, rc = {0};
    zckCtx *za = mk_writer(), *zb = mk_writer(), *zc = mk_writer();
    REC = &ra;
    ssize_t wa = zck_write(za, (const char *)x, CN);
    size_t c1 = nondet_size_t(), c2 = nondet_size_t();
    ASSUME(c1 <= c2 && c2 <= CN);
    REC = &rb;
    ssize_t wb1 = zck_write(zb, (const char *)x, c1);
    ssize_t wb2 = zck_write(zb, (const char *)x + c1, c2 - c1);
    ssize_t wb3 = zck_write(zb, (const char *)x + c2, CN - c2);
    REC = &rc;
    int okc = 1;
    for(unsigned k = 0; k < CN; k++) if(zck_write(zc, (const char *)x + k, 1) != 1) okc = 0;
    OBLIGE(wa == CN && wb1 == (ssize_t)c1 && wb2 == (ssize_t)(c2 - c1) && wb3 == (ssize_t)(CN - c2) && okc, "C16/every-write-accepts-all-its-bytes");
    OBLIGE(!ra.over && !rb.over && !rc.over, "C16/codec-receives-exactly-the-content");
    OBLIGE(ra.on == CN && rb.on == CN && rc.on == CN, "C16/codec-receives-exactly-the-content");
    for(unsigned k = 0; k < CN; k++)
        OBLIGE(ra.out[k] == x[k] && rb.out[k] == x[k] && rc.out[k] == x[k], "C16/codec-receives-the-content-bytes-in-order");
    OBLIGE(ra.n == rb.n && ra.n == rc.n, "C16/same-number-of-chunks-for-every-segmentation-into-write-calls");
    for(unsigned k = 0; k < RMAXN; k++) if(k < ra.n && k < rb.n && k < rc.n) {
        OBLIGE(ra.len[k] == rb.len[k] && ra.len[k] == rc.len[k], "C16/same-chunk-lengths-for-every-segmentation-into-write-calls");
        OBLIGE(ra.len[k] >= AMIN && ra.len[k] <= AMAX, "C16/automatic-chunk-respects-the-effective-minimum-and-maximum");
        OBLIGE(rb.len[k] >= AMIN && rb.len[k] <= AMAX && rc.len[k] >= AMIN && rc.len[k] <= AMAX, "C16/automatic-chunk-respects-the-effective-minimum-and-maximum");
    }
    OBLIGE(za->comp.dc_data_size == zb->comp.dc_data_size && za->comp.dc_data_size == zc->comp.dc_data_size, "C16/same-unfinished-tail-for-every-segmentation");
    OBLIGE(za->comp.dc_data_size <= AMAX, "C16/unfinished-tail-never-exceeds-the-maximum");
    WITNESS("h16w");
}
#endif
#ifdef H_h16p
/* two contents that agree on the first p bytes: every chunk of X that ends before p (the byte after it is still shared) is a
 * chunk of Y at the same place */
void h16p(void) {
    unsigned char x[CN], y[CN];
    size_t p = nondet_size_t();
    ASSUME(p <= CN);
    for(unsigned k = 0; k < CN; k++) { x[k] = nondet_uchar(); y[k] = nondet_uchar(); if(k < p) ASSUME(x[k] == y[k]); }
    rec_t rx = {0}, ry = {0};
    zckCtx *zx = mk_writer(), *zy = mk_writer();
    REC = &rx;
    ssize_t wx = zck_write(zx, (const char *)x, CN);
    REC = &ry;
    ssize_t wy = zck_write(zy, (const char *)y, CN);
    OBLIGE(wx == CN && wy == CN, "C16/every-write-accepts-all-its-bytes");
    size_t end = 0;
    for(unsigned k = 0; k < RMAXN; k++) if(k < rx.n) {
        end += rx.len[k];
        if(end < p) {
            OBLIGE(k < ry.n, "C16/chunk-ending-before-the-first-difference-exists-in-both-outputs");
            if(k < ry.n) OBLIGE(ry.len[k] == rx.len[k], "C16/chunk-ending-before-the-first-difference-is-identical-in-both-outputs");
        }
    }
    WITNESS("h16p");
}
#endif
