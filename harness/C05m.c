/* C05 / C17 / C04 - multipart/byteranges reassembly, CONCRETE SHAPE per instance: response text, boundary, cut positions and
 * checksum verdicts are fixed per instance; the payload bytes (and every other file byte) are symbolic.
 * Real code: dl.c (zck_write_chunk_cb, dl_write_range, dl_write, set_chunk_valid, zero_chunk, zck_dl_init/reset/free),
 * multipart.c (multipart_extract, gen_regex, add_boundary_to_regex, create_regex, reset_mp).  glibc regex = env/regex_exact.c
 * (exact matchers for zchunk's patterns on concrete subjects); validate_chunk = recorder with the instance's verdict (the
 * real comparison: h05a, C09).  Target: header of 2 bytes + 3 chunks of 2 bytes; chunks 0 and 2 are missing, chunk 1 valid. */
#include "ctxbuild.h"
#include <string.h>
#include <stdarg.h>
#include <stdio.h>
#define DOFF 2
#ifndef BND
#define BND "B"
#endif
/* exact snprintf for the one use in add_boundary_to_regex: a format with a single %s */
int snprintf(char *s, size_t n, const char *fmt, ...) {
    va_list ap; va_start(ap, fmt);
    const char *arg = va_arg(ap, const char *);
    va_end(ap);
    size_t o = 0;
    for(size_t i = 0; fmt[i]; i++) {
        if(fmt[i] == '%' && fmt[i + 1] == 's') { for(size_t k = 0; arg[k]; k++) { if(o + 1 < n) s[o] = arg[k]; o++; } i++; }
        else { if(o + 1 < n) s[o] = fmt[i]; o++; }
    }
    if(n > 0) s[o < n - 1 ? o : n - 1] = 0;
    return (int)o;
}
static const int VV[3] = {V0, 1, V2};
int v_calls;
int validate_chunk(zckChunk *idx, zck_log_type t) {
    (void)t;
    if(idx == NULL || idx->zck == NULL || idx->zck->error_state > 0) return 0;
    char *d = hash_finalize(idx->zck, &idx->zck->check_chunk_hash);
    if(d == NULL) { idx->valid = 0; return 0; }
    free(d);
    v_calls++;
    int v = VV[idx->number < 3 ? idx->number : 1];
    idx->valid = v;
    return v;
}
#define RMAX_ 136
static const size_t CUT[4] = {CUT1, CUT2, CUT3, 0};
unsigned char IN_pay[4];
void h05m(void) {
    vf_havoc(0);
    vf_attach(0, 3, 8);
    tgt_t T = mk_target(3, DOFF - 1, 1);
    zckCtx *z = T.z; z->fd = 3;
    for(size_t i = 0; i < 3; i++) { T.c[i]->comp_length = 2; T.c[i]->length = 2; T.c[i]->valid = (i == 1); }
    fix_starts(&T, 3);
    unsigned char before[FCAP];
    for(size_t i = 0; i < FCAP; i++) before[i] = vf_data0[i];
    /* range index: chunks 0 and 2, payload offsets 0 and 2 */
    zckRange *r = calloc(1, sizeof(zckRange)); ASSUME(r != NULL);
    zckChunk *prev = NULL;
    for(size_t i = 0; i < 3; i += 2) {
        zckChunk *rc = calloc(1, sizeof(zckChunk)); ASSUME(rc != NULL);
        rc->digest = malloc(DSZ); ASSUME(rc->digest != NULL); memcpy(rc->digest, T.c[i]->digest, DSZ);
        rc->digest_size = DSZ; rc->comp_length = 2; rc->length = 2; rc->start = i; rc->src = T.c[i]; rc->zck = z; rc->number = i / 2;
        if(prev) prev->next = rc; else r->index.first = rc;
        prev = rc;
    }
    r->index.count = 2; r->index.digest_size = DSZ; r->count = 2;
    zckDL *dl = zck_dl_init(z);
    ASSUME(dl != NULL && dl->mp != NULL);
    zck_dl_set_range(dl, r);
    dl->boundary = malloc(sizeof(BND)); ASSUME(dl->boundary != NULL);
    memcpy(dl->boundary, BND, sizeof(BND));
    /* the response body */
    static const char part1[] = "\r\n--" BND "\r\nContent-Type: application/octet-stream\r\nContent-Range: bytes 2-3/8\r\n\r\n";
    static const char part2[] = "\r\n--" BND "\r\ncontent-range: bytes 6-7/8\r\n\r\n";
    static const char tail[] = "\r\n--" BND "--\r\n";
    char resp[RMAX_]; size_t n = 0, p0, p2;
    for(size_t i = 0; i + 1 < sizeof part1; i++) resp[n++] = part1[i];
    p0 = n; for(int k = 0; k < 2; k++) { unsigned char b = nondet_uchar(); IN_pay[k] = b; resp[n++] = (char)b; }
    for(size_t i = 0; i + 1 < sizeof part2; i++) resp[n++] = part2[i];
    p2 = n; for(int k = 0; k < 2; k++) { unsigned char b = nondet_uchar(); IN_pay[2 + k] = b; resp[n++] = (char)b; }
    for(size_t i = 0; i + 1 < sizeof tail; i++) resp[n++] = tail[i];
    /* delivery: fragments end at CUT1 < CUT2 < CUT3 (0 = unused) and at the end; STEP1 delivers one byte per call */
    int failed = 0; size_t done = 0;
#ifdef STEP1
    for(size_t i = 0; i < RMAX_; i++) if(i < n && !failed) {
        char *big = malloc(4); ASSUME(big != NULL); big[1] = resp[i];
        size_t ret = zck_write_chunk_cb(big + 1, 1, 1, dl);
        OBLIGE(ret == 1 || ret == 0, "C17/write-callback-accepts-or-signals-an-error");
        if(ret != 1) failed = 1;
        free(big);
    }
#else
    for(int f = 0; f < 4; f++) if(!failed && done < n) {
        size_t end = (CUT[f] > done && CUT[f] < n) ? CUT[f] : n;
        size_t len = end - done;
        char *big = malloc(len + 3); ASSUME(big != NULL);          /* the transport's own buffer: the fragment starts inside it */
        for(size_t k = 0; k < RMAX_; k++) if(k < len) big[1 + k] = resp[done + k];
        size_t ret = zck_write_chunk_cb(big + 1, 1, len, dl);
        OBLIGE(ret == len || ret == 0, "C04/write-callback-returns-the-bytes-it-was-given-or-an-error");
        if(ret != len) failed = 1;
        free(big);
        done = end;
    }
#endif
    int first_bad = (V0 != 1) ? 0 : (V2 != 1) ? 2 : -1;
    OBLIGE(failed == (first_bad >= 0), "C05/callback-reports-an-error-exactly-when-a-chunk-fails-its-checksum");
    for(size_t i = 0; i < 3; i++) {
        size_t off = DOFF + 2 * i, po = (i == 0) ? p0 : p2;
        if(i == 1) {
            OBLIGE(T.c[1]->valid == 1 && vf_data0[off] == before[off] && vf_data0[off + 1] == before[off + 1], "C05/already-valid-chunk-untouched");
        } else if(first_bad < 0 || (int)i < first_bad) {
            OBLIGE(T.c[i]->valid == 1, "C05/requested-chunk-marked-valid-after-its-bytes-arrived");
            OBLIGE(vf_data0[off] == (unsigned char)resp[po] && vf_data0[off + 1] == (unsigned char)resp[po + 1], "C05/requested-chunk-bytes-at-its-file-offset");
        } else if((int)i == first_bad) {
            OBLIGE(T.c[i]->valid == -1 && vf_data0[off] == 0 && vf_data0[off + 1] == 0, "C05/chunk-failing-its-checksum-zero-filled-and-marked-failed");
        } else {
            OBLIGE(T.c[i]->valid == 0 && vf_data0[off] == before[off] && vf_data0[off + 1] == before[off + 1], "C05/chunks-after-the-failure-untouched");
        }
    }
    OBLIGE(vf_data0[0] == before[0] && vf_data0[1] == before[1] && vf_size[0] == 8, "C05/header-bytes-and-file-length-unchanged");
    zck_dl_free(&dl);
    WITNESS("h05m-end");
}
