/* C13 (reported metadata = the file's) and C03 (memory safety / termination of the parsers).
 * Real code: src/lib/header.c (read_preface, read_index, read_sig, check_flags, getters - static functions reached by
 * including the source), src/lib/index/index_read.c (index_read and the chunk getters), compint.c, hash.c (hash_setup,
 * set_chunk_hash_type), comp.c (comp_ioption, comp_init, set_comp_type), zstd.c / nocomp.c setup+init.
 * Each stage starts from the invariant the previous stage establishes (DESIGN.md 2.4) with an exact-size header object,
 * so CBMC's pointer checks are the guard page; the oracle is a parser written from zchunk_format.txt (128-bit integers). */
#include "common.h"
#include "header.c"

#ifndef HT
#define HT 3                       /* header / data checksum type */
#endif
#define DS (HT == 0 ? 20 : HT == 1 ? 32 : HT == 2 ? 64 : 16)
#ifndef LS
#define LS (7 + DS)                /* lead size: id + two 1-byte integers + digest */
#endif
#ifndef HB
#define HB 28                      /* max header_length explored */
#endif

size_t IN_hl; unsigned char IN_hdr[HB];

/* HdrInv: header object of exactly lead_size+header_length bytes, arbitrary content after the lead */
static zckCtx *mk_hdr(size_t *hlp, unsigned char *hb) {
    zckCtx *z = mk_ctx(ZCK_MODE_READ);
    /* header_length is concrete per harness instance (several instances run): an object of constant size is encoded as a
     * flat bit-vector, one of symbolic size through array theory (measured: 63 s / 5.4 GB OOM vs seconds) */
    size_t hl = HB;
    z->lead_size = LS; z->header_length = hl; z->header_size = LS + hl; z->hdr_digest_loc = 7;
    z->hash_type.type = HT; z->hash_type.digest_size = DS;
    z->header = malloc(LS + hl);
    ASSUME(z->header != NULL);
    for(size_t i = 0; i < LS; i++) z->header[i] = nondet_char();
    for(size_t i = 0; i < HB; i++) { hb[i] = nondet_uchar(); IN_hdr[i] = hb[i]; if(i < hl) z->header[LS + i] = (char)hb[i]; }
    z->lead_string = z->header;
    z->header_digest = malloc(DS);
    ASSUME(z->header_digest != NULL);
    IN_hl = hl; *hlp = hl;
    return z;
}

/* ---- reference preface parser (zchunk_format.txt "The preface") ---- */
#ifndef OPTMAX
#define OPTMAX 2
#endif
typedef struct { int ok; u128 flags; int comp; int index_size; size_t size; u128 optcnt; } ref_pre_t;
static ref_pre_t ref_preface(const unsigned char *h, size_t hl) {
    ref_pre_t r = {0};
    size_t p = DS, l; u128 v;
    if(hl < (size_t)DS) return r;
    if(!ref_ci(h + p, hl - p, &r.flags, &l)) return r;
    p += l;
    if(r.flags >> 64) return r;
    if(r.flags & ~(u128)6) return r;               /* bit 0 (streams) is not supported, every other bit is unknown */
    if(!ref_ci(h + p, hl - p, &v, &l)) return r;
    p += l;
    if(v != 0 && v != 2) return r;
    r.comp = (int)v;
    if(r.flags & 2) {
        u128 cnt;
        if(!ref_ci(h + p, hl - p, &cnt, &l)) return r;
        p += l;
        if(cnt >> 64) return r;
        r.optcnt = cnt;
        if(cnt > OPTMAX) return r;                 /* outside the explored bound (assumed away by the harness) */
        for(size_t i = 0; i < OPTMAX; i++) if((u128)i < cnt) {
            u128 id, dsz;
            if(!ref_ci(h + p, hl - p, &id, &l)) return r;
            p += l;
            if(id >> 64) return r;
            if(!ref_ci(h + p, hl - p, &dsz, &l)) return r;
            p += l;
            if(dsz > (u128)(hl - p)) return r;     /* element data must lie inside the header */
            p += (size_t)dsz;
        }
    }
    if(!ref_ci(h + p, hl - p, &v, &l)) return r;
    p += l;
    if(v > (u128)INT_MAX) return r;
    r.index_size = (int)v; r.size = p; r.ok = 1;
    return r;
}

#ifdef H_h13p
void h13p(void) {
    size_t hl; unsigned char hb[HB];
    zckCtx *z = mk_hdr(&hl, hb);
    zs_mode = 1;
    ref_pre_t r = ref_preface(hb, hl);
    ASSUME(r.optcnt <= OPTMAX);      /* bound on the number of optional elements explored */
    bool ok = read_preface(z);
    if(ok) {
        OBLIGE(r.ok, "C13/preface-accepted-only-if-wellformed-per-format");
        ASSUME(r.ok);
        OBLIGE(z->preface_size == r.size && z->preface_string == z->header + LS, "C13/preface-size");
        OBLIGE(z->index_size == (size_t)r.index_size, "C13/index-size-field");
        OBLIGE(z->comp.type == r.comp, "C13/compression-type-field");
        OBLIGE((size_t)zck_get_flags(z) == (size_t)r.flags, "C13/flags-reported-equal-file");
        OBLIGE((z->has_optional_elems != 0) == ((r.flags & 2) != 0) && (z->has_uncompressed_source != 0) == ((r.flags & 4) != 0)
               && !z->has_streams, "C13/flag-bits-stored");
        for(int i = 0; i < DS; i++)
            OBLIGE((unsigned char)z->full_hash_digest[i] == hb[i], "C13/data-digest-stored");
        OBLIGE(z->comp.started, "C13/codec-initialised");
        WITNESS("h13p-accept");
    } else {
        WITNESS("h13p-reject");
    }
}
#endif

/* ---- reference index parser ("The index"; index size itself is in the preface) ---- */
#ifndef NE
#define NE 2                        /* max entries that fit the bound */
#endif
typedef struct { int ok; int ctype; int cds; u128 count; size_t n; size_t off_digest[NE + 1]; u128 clen[NE + 1], ulen[NE + 1]; } ref_idx_t;
static ref_idx_t ref_index(const unsigned char *x, size_t isz, int unc) {
    ref_idx_t r = {0};
    size_t p = 0, l; u128 v;
    if(!ref_ci(x + p, isz - p, &v, &l)) return r;
    p += l;
    if(v > 3) return r;
    r.ctype = (int)v; r.cds = ref_dsize(v);
    if(!ref_ci(x + p, isz - p, &r.count, &l)) return r;
    p += l;
    if(r.count >> 64) return r;
    for(size_t k = 0; k <= NE; k++) if(p < isz) {
        size_t need = (size_t)r.cds * (unc ? 2 : 1);
        if(isz - p < need) return r;
        if(k >= NE) return r;                        /* more entries than the bound holds: not explored */
        r.off_digest[k] = p; p += need;
        if(!ref_ci(x + p, isz - p, &r.clen[k], &l)) return r;
        p += l;
        if(!ref_ci(x + p, isz - p, &r.ulen[k], &l)) return r;
        p += l;
        if((r.clen[k] >> 64) || (r.ulen[k] >> 64)) return r;
        r.n = k + 1;
    }
    if(p != isz) return r;
    if(r.count != (u128)r.n || r.n < 1) return r;   /* count includes the dictionary entry; it is always present */
    r.ok = 1;
    return r;
}

#ifdef H_h13i
size_t IN_pre, IN_isz; int IN_unc;
void h13i(void) {
    size_t hl; unsigned char hb[HB];
    zckCtx *z = mk_hdr(&hl, hb);
    /* state after read_preface: preface_size/index_size as parsed (index_size came through compint_to_int: 0..INT_MAX) */
    size_t pre = nondet_size_t(), isz = nondet_size_t();
    ASSUME(pre >= (size_t)DS + 3 && pre <= hl && isz <= (size_t)INT_MAX);
    z->preface_string = z->header + LS; z->preface_size = pre; z->index_size = isz;
    z->has_uncompressed_source = nondet_bool() ? 4 : 0;
    IN_pre = pre; IN_isz = isz; IN_unc = z->has_uncompressed_source;
    bool ok = read_index(z);
    if(ok) {
        OBLIGE(pre + isz <= hl, "C13/index-lies-inside-the-header");
        ASSUME(pre + isz <= hl);
        unsigned char x[HB];
        for(size_t i = 0; i < HB; i++) x[i] = pre + i < HB ? hb[pre + i] : 0;
        ref_idx_t r = ref_index(x, isz, z->has_uncompressed_source != 0);
        OBLIGE(r.ok, "C13/index-accepted-only-if-wellformed-per-format");
        ASSUME(r.ok);
        OBLIGE(z->index.hash_type == r.ctype && z->index.digest_size == (size_t)r.cds && z->chunk_hash_type.type == r.ctype &&
               z->chunk_hash_type.digest_size == r.cds, "C13/chunk-checksum-type");
        OBLIGE(zck_get_chunk_count(z) == (ssize_t)r.n, "C13/reported-count-equals-entries-present");
        size_t sum = 0, k = 0;
        zckChunk *c = zck_get_first_chunk(z);
        OBLIGE(c != NULL, "C13/at-least-the-dictionary-entry");
        for(size_t j = 0; j <= NE; j++) if(c) {
            OBLIGE(j < r.n, "C13/iteration-yields-no-more-chunks-than-entries");
            if(j < r.n) {
                OBLIGE(c->number == j && zck_get_chunk_number(c) == (ssize_t)j, "C13/chunk-number");
                OBLIGE(c->comp_length == (size_t)r.clen[j] && c->length == (size_t)r.ulen[j], "C13/chunk-sizes");
                OBLIGE(c->start == sum, "C13/chunk-start-is-running-sum-of-stored-sizes");
                OBLIGE(c->digest_size == r.cds && c->zck == z && c->valid == 0, "C13/chunk-bookkeeping");
                for(int i = 0; i < 64; i++) if(i < r.cds) {
                    OBLIGE((unsigned char)c->digest[i] == x[r.off_digest[j] + i], "C13/chunk-digest");
                    if(z->has_uncompressed_source)
                        OBLIGE((unsigned char)c->digest_uncompressed[i] == x[r.off_digest[j] + r.cds + i], "C13/chunk-uncompressed-digest");
                }
                sum += c->comp_length;
            }
            c = c->next; k++;
        }
        OBLIGE(c == NULL && k == r.n, "C13/iteration-yields-exactly-the-entries");
        OBLIGE(z->index.length == sum, "C13/data-length-is-sum-of-stored-sizes");
        WITNESS("h13i-accept");
    } else {
        WITNESS("h13i-reject");
    }
}
#endif

#ifdef H_h13s
void h13s(void) {
    size_t hl; unsigned char hb[HB];
    zckCtx *z = mk_hdr(&hl, hb);
    size_t pre = nondet_size_t(), isz = nondet_size_t();
    ASSUME(pre >= (size_t)DS + 3 && pre <= hl && isz <= hl - pre);
    z->preface_string = z->header + LS; z->preface_size = pre; z->index_size = isz;
    z->index_string = z->header + LS + pre;
    bool ok = read_sig(z);
    u128 v; size_t l;
    int rok = ref_ci(hb + (pre + isz < HB ? pre + isz : HB - 1), hl - (pre + isz), &v, &l) && pre + isz < hl;
    if(ok) {
        OBLIGE(rok && v == 0, "C13/signature-count-field-wellformed-and-zero");
        OBLIGE(z->sigs.count == 0 && z->sig_size == l, "C13/signature-section");
        OBLIGE(z->data_offset == LS + hl && (size_t)zck_get_header_length(z) == LS + hl && (size_t)zck_get_lead_length(z) == LS,
               "C13/header-and-lead-length-reported");
        WITNESS("h13s-accept");
    } else {
        WITNESS("h13s-reject");
    }
}
#endif
